package main

// R20f — client text is spliced into SQL between quotes only.
//
// Where package ledgerstore builds an SQL fragment with fmt.Sprintf and a constant format, a `%s` / `%v` that stands
// OUTSIDE single quotes in the format receives a column name or a sub-fragment — never text that comes from the
// client. Client text here is: a string parameter of the enclosing function that some caller binds to a non-constant
// (the `address` of filterAccountAddress, not its `key`), and what is derived from it by splitting, indexing, ranging,
// converting or JSON-encoding. (The validation of that text by the address regexp is R20a's matter; here the text must
// also stay DATA: swapped arguments or dropped quotes turn it into an identifier or raw tokens.)

import (
	"fmt"
	"go/token"
	"go/types"
	"sort"
	"strings"

	"golang.org/x/tools/go/ssa"
)

func ruleR20f(c *Ctx, rule string) {
	n := 0
	var fns []*ssa.Function
	for _, fn := range c.FuncsIn(pkgLedgerstore) {
		if len(fn.Blocks) > 0 && fn.Synthetic == "" && !strings.HasSuffix(c.Fset.Position(fn.Pos()).Filename, "_test.go") {
			fns = append(fns, fn)
		}
	}
	sort.Slice(fns, func(i, j int) bool { return fns[i].Pos() < fns[j].Pos() })
	constBound := func(p *ssa.Parameter) bool {
		sites := c.CallersOf(p.Parent())
		idx := paramIndex(p)
		if len(sites) == 0 || idx < 0 {
			return false
		}
		for _, s := range sites {
			if idx >= len(s.Common().Args) {
				return false
			}
			if _, ok := strip(s.Common().Args[idx]).(*ssa.Const); !ok {
				return false
			}
		}
		return true
	}
	for _, fn := range fns {
		hasClientParam := false
		for _, p := range fn.Params {
			if b, ok := p.Type().Underlying().(*types.Basic); ok && b.Kind() == types.String && !constBound(p) {
				hasClientParam = true
			}
		}
		if !hasClientParam || fn.Parent() != nil {
			continue // filter literals validate their key and value themselves (R20a)
		}
		// the fragment builders the filter literals hand the client's value to
		fromFilter := false
		for _, cs := range c.CallersOf(fn) {
			if cs.Parent() != nil && cs.Parent().Parent() != nil {
				fromFilter = true
			}
		}
		if !fromFilter {
			continue
		}
		var client func(v ssa.Value, depth int) bool
		client = func(v ssa.Value, depth int) bool {
			if depth > 8 || v == nil {
				return false
			}
			switch x := v.(type) {
			case *ssa.Parameter:
				b, ok := x.Type().Underlying().(*types.Basic)
				return ok && b.Kind() == types.String && x.Parent() == fn && !constBound(x)
			case *ssa.Convert:
				return client(x.X, depth+1)
			case *ssa.ChangeType:
				return client(x.X, depth+1)
			case *ssa.MakeInterface:
				return client(x.X, depth+1)
			case *ssa.Slice:
				return client(x.X, depth+1)
			case *ssa.Phi:
				for _, e := range x.Edges {
					if client(e, depth+1) {
						return true
					}
				}
			case *ssa.UnOp:
				if x.Op == token.MUL {
					if ia, ok := x.X.(*ssa.IndexAddr); ok {
						return client(ia.X, depth+1)
					}
					if al, ok := x.X.(*ssa.Alloc); ok {
						if sv := singleStore(al); sv != nil {
							return client(sv, depth+1)
						}
					}
				}
			case *ssa.Extract:
				switch t := x.Tuple.(type) {
				case *ssa.Next:
					if rg, ok := t.Iter.(*ssa.Range); ok {
						return client(rg.X, depth+1)
					}
				case *ssa.Call:
					return client(t, depth+1)
				}
			case *ssa.Call:
				name := calleeFullName(x)
				switch {
				case strings.HasPrefix(name, "strings.") && len(x.Call.Args) > 0:
					return client(x.Call.Args[0], depth+1)
				case name == "encoding/json.Marshal":
					return true // the encoding of something built from the function's client text
				}
			}
			return false
		}
		k := 0
		allCalls(fn, func(ci ssa.CallInstruction) {
			call, ok := ci.(*ssa.Call)
			if !ok || calleeFullName(call) != "fmt.Sprintf" || len(call.Call.Args) < 2 {
				return
			}
			format, ok := constString(call.Call.Args[0])
			if !ok {
				return
			}
			args := variadicElems(call.Call.Args[1])
			// verbs and whether they stand between single quotes
			type verb struct{ quoted bool }
			var verbs []verb
			inQ := false
			for i := 0; i < len(format); i++ {
				switch format[i] {
				case '\'':
					inQ = !inQ
				case '%':
					if i+1 < len(format) && format[i+1] == '%' {
						i++
						continue
					}
					j := i + 1
					for j < len(format) && strings.ContainsRune("+-# 0123456789.*", rune(format[j])) {
						j++
					}
					if j < len(format) {
						verbs = append(verbs, verb{inQ})
					}
					i = j
				}
			}
			if len(verbs) != len(args) {
				return
			}
			for i, a := range args {
				if !client(a, 0) {
					continue
				}
				n++
				k++
				c.seeFn(fn)
				key := fmt.Sprintf("%s:sprintf#%d:client-text-between-quotes", fnName(fn), k)
				if verbs[i].quoted {
					c.ok(rule, key, call.Pos(), "the client's text fills a verb that stands between single quotes")
				} else {
					c.bad(rule, key, call.Pos(), fmt.Sprintf("argument %d of this Sprintf is text from the client and fills a verb that stands OUTSIDE the quotes of the format %q: the text becomes an identifier or raw SQL tokens instead of a literal", i+1, format))
				}
			}
		})
	}
	if n < 1 {
		c.undecided(rule, "floor:client-text-in-formats", token.NoPos, fmt.Sprintf("expected at least 1 Sprintf arguments carrying client text in ledgerstore (the address filters), found %d", n))
	}
}
