package main

import (
	"fmt"
	"go/token"
	"go/types"
	"sort"
	"strings"

	"golang.org/x/tools/go/ssa"
)

func init() {
	register("C15", propMeta{
		Level: "other",
		Explanation: "Lock-manager discipline decided on all paths (hence all schedules). R15a (lock-set machine with context-sensitive inlining from every entry point of package command): every access to DefaultLocker.readLocks/writeLocks/intents and every method call on the intents list or its nodes happens with DefaultLocker.mu held. " +
			"R15b (tables): tryLock tests (Read,writeLocks), (Write,readLocks), (Write,writeLocks) with `return false`, no test is reachable from an acquisition, acquisitions are exactly (Read,readLocks++), (Write,writeLocks); unlock mirrors them, deleting a read entry only when its counter reaches zero. " +
			"R15c: every call of lockIntent.unlock is followed, before the mutex is released, by the queue re-examination. R15d: on the cancellation arm of Lock every path to the error return holds the mutex while it either removes the still-queued intent or, when the intent was granted meanwhile, gives the accounts back and re-examines the queue. R15f: what queuing a request adds to the locker state, abandoning takes back — every DefaultLocker field changed on the way to the blocking select (outside boolean probes) is changed again on the path that abandons a still-queued request after ctx.Done (a waiting-writers counter that only the grant decrements leaves a phantom waiter). R15h: LinkedList.RemoveValue looks for the value it is given (its predicate is an equality), and the loops of the function that gives the accounts back are left only when exhausted. R15g: the queue stays a well-formed doubly-linked list — LinkedListNode.Remove writes both link fields of the node type and both end fields of the list type (read from the type shape), and a LinkedList method that searches and hands out a node (RemoveFirst) has unlinked it on every path that returns it.",
		NotDecided:  "fairness beyond `every release re-examines every waiter`; pointer surgery inside collectionutils.LinkedList; liveness under goroutine starvation.",
		Trusted:     []string{"sync.Mutex, select and channel-close semantics"},
		Assumptions: []string{"DefaultLocker values are created by NewDefaultLocker only (composite literals elsewhere are reported)"},
	}, func(c *Ctx) {
		ruleR15a(c)
		ruleR15b(c, "R15b")
		ruleR15cd(c)
		ruleR15f(c)
	})
}

// ---- generic mutex discipline ----------------------------------------------------------------

type lockDisc struct {
	rule      string
	pkg       string
	mutex     *types.Var
	guarded   []*types.Var                         // fields that may only be touched with the mutex held
	guardCall func(ci ssa.CallInstruction) string  // extra guarded operations (method calls); "" = not guarded
	exempt    func(fn *ssa.Function) bool          // constructors etc.
}

const ldMU = 1

func mutexOp(ci ssa.CallInstruction, mutex *types.Var) string {
	name := calleeFullName(ci)
	var op string
	switch name {
	case "(*sync.Mutex).Lock", "(*sync.RWMutex).Lock":
		op = "lock"
	case "(*sync.Mutex).Unlock", "(*sync.RWMutex).Unlock":
		op = "unlock"
	default:
		return ""
	}
	args := ci.Common().Args
	if len(args) == 0 {
		return ""
	}
	if fa, ok := args[0].(*ssa.FieldAddr); ok && sameField(fieldOfAddr(fa), mutex) {
		return op
	}
	return ""
}

// entryPoints: functions of pkg with no resolved caller inside the package (they are entered from
// outside: other packages, interface dispatch, escaping closures).
func (c *Ctx) entryPoints(pkg string) []*ssa.Function {
	var out []*ssa.Function
	for _, fn := range c.FuncsIn(pkg) {
		if len(fn.Blocks) == 0 {
			continue
		}
		if fn.Synthetic != "" && !strings.HasPrefix(fn.Synthetic, "instance of") {
			continue // wrappers, bound methods, package init
		}
		if fn.TypeParams().Len() > 0 && len(fn.TypeArgs()) == 0 {
			continue // generic body: its instantiations are analysed
		}
		internal := false
		for _, ci := range c.CallersOf(fn) {
			if fnPkgPath(origin(ci.Parent())) == pkg && (ci.Parent().Synthetic == "" || strings.HasPrefix(ci.Parent().Synthetic, "instance of")) {
				internal = true
			}
		}
		if !internal {
			out = append(out, fn)
		}
	}
	return out
}

func freshBase(v ssa.Value) bool {
	switch x := v.(type) {
	case *ssa.Alloc:
		return true
	case *ssa.UnOp:
		// load of a local that holds a fresh allocation
		if s := singleStore(x.X); s != nil {
			return freshBase(s)
		}
	}
	return false
}

func runLockDiscipline(c *Ctx, d lockDisc) (nAccess int) {
	obl := newOblSet(c, d.rule)
	defer obl.flush()
	inPkg := func(fn *ssa.Function) bool { return fnPkgPath(fn) == d.pkg }
	roots := c.entryPoints(d.pkg)
	fieldName := func(f *types.Var) string { return f.Name() }
	for _, root := range roots {
		if d.exempt != nil && d.exempt(root) {
			continue
		}
		pr := &PathRule{
			DeferID: func(df *ssa.Defer) int {
				if mutexOp(df, d.mutex) == "unlock" {
					return 0
				}
				return -1
			},
			RunDeferred: func(pc *PathCtx, s uint64, df *ssa.Defer) uint64 { return s &^ ldMU },
			Inline: func(ci ssa.CallInstruction) []*ssa.Function {
				var out []*ssa.Function
				for _, f := range c.CalleesOf(ci) {
					if inPkg(f) && (d.exempt == nil || !d.exempt(f)) {
						out = append(out, f)
					}
				}
				return out
			},
			Step: func(pc *PathCtx, s uint64, ins ssa.Instruction) uint64 {
				switch x := ins.(type) {
				case *ssa.FieldAddr:
					for _, g := range d.guarded {
						if sameField(fieldOfAddr(x), g) && !freshBase(x.X) {
							nAccess++
							key := fnName(pc.Fn()) + ":" + fieldName(g)
							if s&ldMU == 0 {
								pc.Note("access to %s at %s without the mutex", g.Name(), c.pos(x.Pos()))
								obl.violate(key, x.Pos(), fmt.Sprintf("field %s is accessed on a path (entered from %s) where %s is not held: concurrent goroutines race on it", g.Name(), fnName(root), d.mutex.Name()), pc.Trail())
							} else {
								obl.expect(key, x.Pos(), "accessed with "+d.mutex.Name()+" held on every path from every entry point")
							}
						}
					}
				case ssa.CallInstruction:
					switch mutexOp(x, d.mutex) {
					case "lock":
						return s | ldMU
					case "unlock":
						return s &^ ldMU
					}
					if d.guardCall != nil {
						if what := d.guardCall(x); what != "" {
							nAccess++
							key := fnName(pc.Fn()) + ":" + what
							if s&ldMU == 0 {
								pc.Note("%s at %s without the mutex", what, c.pos(x.Pos()))
								obl.violate(key, x.Pos(), fmt.Sprintf("%s is called on a path (entered from %s) where %s is not held", what, fnName(root), d.mutex.Name()), pc.Trail())
							} else {
								obl.expect(key, x.Pos(), "called with "+d.mutex.Name()+" held")
							}
						}
					}
				}
				return s
			},
		}
		c.RunPaths(root, 0, pr)
	}
	return nAccess
}

func ruleR15a(c *Ctx) {
	const rule = "R15a"
	lm := c.lockModel(rule)
	mu := lm.mu
	var guarded []*types.Var
	for _, f := range []*types.Var{lm.mRead, lm.mWrite, lm.intents} {
		if f != nil {
			guarded = append(guarded, f)
		}
	}
	if mu == nil || len(guarded) != 3 {
		return
	}
	n := runLockDiscipline(c, lockDisc{
		rule: rule, pkg: pkgCommand, mutex: mu, guarded: guarded,
		guardCall: func(ci ssa.CallInstruction) string {
			// method calls on the intents list / its nodes
			f := staticCallee(ci)
			if f == nil || f.Signature.Recv() == nil {
				return ""
			}
			o := f
			if f.Origin() != nil {
				o = f.Origin()
			}
			if fnPkgPath(o) != libsPath+"/collectionutils" {
				return ""
			}
			rn := recvTypeName(o)
			if rn == "LinkedList" || rn == "LinkedListNode" {
				if o.Name() == "Value" || o.Name() == "Next" {
					// reading a node obtained under the mutex: still part of the traversal
					return rn + "." + o.Name()
				}
				return rn + "." + o.Name()
			}
			return ""
		},
		exempt: func(fn *ssa.Function) bool { return fn.Name() == "NewDefaultLocker" },
	})
	if n < 6 {
		c.undecided(rule, "floor:guarded-accesses", token.NoPos, fmt.Sprintf("only %d guarded accesses found; the lock manager's state moved", n))
	}
}

// ---- R15b: compatibility matrix ------------------------------------------------------------------

func ruleR15b(c *Ctx, rule string) {
	lm := c.lockModel(rule)
	tryLock, unlock := lm.tryLock, lm.unlock
	fRead := c.MustField(rule, pkgCommand, "Accounts", "Read")
	fWrite := c.MustField(rule, pkgCommand, "Accounts", "Write")
	mRead, mWrite := lm.mRead, lm.mWrite
	if tryLock == nil || unlock == nil || fRead == nil || fWrite == nil || mRead == nil || mWrite == nil {
		return
	}
	// which Accounts field does a key value range over?
	keyField := func(v ssa.Value) string {
		u, ok := v.(*ssa.UnOp)
		if !ok || u.Op != token.MUL {
			return ""
		}
		ia, ok := u.X.(*ssa.IndexAddr)
		if !ok {
			return ""
		}
		src := ia.X
		// the slice a helper ranges over is its parameter (`releaseRead(accounts []string)`): what its callers pass
		if p, isParam := src.(*ssa.Parameter); isParam && p.Parent() != nil {
			names := map[string]bool{}
			for _, cs := range c.CallersOf(p.Parent()) {
				if i := paramIndex(p); i >= 0 && i < len(cs.Common().Args) {
					f, _ := anyFieldRead(cs.Common().Args[i])
					switch {
					case sameField(f, fRead):
						names["Read"] = true
					case sameField(f, fWrite):
						names["Write"] = true
					default:
						names["?"] = true
					}
				}
			}
			if len(names) == 1 {
				for n := range names {
					if n != "?" {
						return n
					}
				}
			}
			return ""
		}
		f, _ := anyFieldRead(src)
		switch {
		case sameField(f, fRead):
			return "Read"
		case sameField(f, fWrite):
			return "Write"
		}
		return ""
	}
	mapField := func(v ssa.Value) string {
		f, _ := anyFieldRead(v)
		switch {
		case sameField(f, mRead):
			return "readLocks"
		case sameField(f, mWrite):
			return "writeLocks"
		}
		return ""
	}
	type pair struct{ acc, m string }
	tests := map[pair]*ssa.Lookup{}
	acqs := map[pair]ssa.Instruction{}
	var testBlocks, acqBlocks []*ssa.BasicBlock
	// tryLock and the helpers of the package it delegates to (`isAvailable`, `hold`): an event inside a helper is
	// anchored, for the ordering rule, at the block of tryLock that calls the helper
	type scope struct {
		fn     *ssa.Function
		anchor *ssa.BasicBlock // nil: the instruction's own block (tryLock itself)
		call   *ssa.Call       // the call in tryLock through which the helper is reached
	}
	scopes := []scope{{tryLock, nil, nil}}
	var addCallees func(f *ssa.Function, anchor *ssa.BasicBlock, call *ssa.Call, depth int)
	seenFn := map[*ssa.Function]bool{tryLock: true}
	addCallees = func(f *ssa.Function, anchor *ssa.BasicBlock, call *ssa.Call, depth int) {
		if depth > 3 {
			return
		}
		allCalls(f, func(ci ssa.CallInstruction) {
			cl, ok := ci.(*ssa.Call)
			if !ok {
				return
			}
			g := staticCallee(cl)
			if g == nil || fnPkgPath(g) != pkgCommand || len(g.Blocks) == 0 || seenFn[g] {
				return
			}
			seenFn[g] = true
			a, rc := anchor, call
			if f == tryLock {
				a, rc = cl.Block(), cl
			}
			scopes = append(scopes, scope{g, a, rc})
			addCallees(g, a, rc, depth+1)
		})
	}
	addCallees(tryLock, nil, nil, 0)
	// which return value of a helper refuses the request: the value v such that tryLock returns false when the helper
	// called at `call` returns v (`if !l.isAvailable(i) { return false }` → false; `if l.conflicts(i) { return false }` → true)
	refusingValues := func(call *ssa.Call) map[bool]bool {
		if call == nil {
			return map[bool]bool{false: true} // tryLock itself: `return false`
		}
		out := map[bool]bool{}
		for _, r := range *call.Referrers() {
			cond, neg := ssa.Value(call), false
			if u, ok := r.(*ssa.UnOp); ok && u.Op == token.NOT {
				cond, neg = u, true
				for _, rr := range *u.Referrers() {
					if iff, ok := rr.(*ssa.If); ok && iff.Cond == cond {
						r = iff
					}
				}
			}
			iff, ok := r.(*ssa.If)
			if !ok {
				continue
			}
			for si := 0; si < 2; si++ {
				tb := iff.Block().Succs[si]
				if ret, ok := tb.Instrs[len(tb.Instrs)-1].(*ssa.Return); ok && len(ret.Results) == 1 {
					if bv, ok := constBool(ret.Results[0]); ok && !bv {
						// successor si is taken when cond is (si == 0); the helper's value is cond, or its negation
						helperVal := si == 0
						if neg {
							helperVal = !helperVal
						}
						out[helperVal] = true
					}
				}
			}
		}
		return out
	}
	for _, sc := range scopes {
		for _, b := range sc.fn.Blocks {
			anchor := sc.anchor
			if anchor == nil {
				anchor = b
			}
			for _, ins := range b.Instrs {
				switch x := ins.(type) {
				case *ssa.Lookup:
					p := pair{keyField(x.Index), mapField(x.X)}
					if p.acc == "" || p.m == "" || !x.CommaOk {
						continue
					}
					// does the ok result lead, on its true edge, to the return that refuses the request?
					rejects := false
					refusing := refusingValues(sc.call)
					for _, r := range *x.Referrers() {
						if e, ok := r.(*ssa.Extract); ok && e.Index == 1 {
							for _, rr := range *e.Referrers() {
								if iff, ok := rr.(*ssa.If); ok && iff.Cond == e {
									tb := iff.Block().Succs[0]
									if ret, ok := tb.Instrs[len(tb.Instrs)-1].(*ssa.Return); ok && len(ret.Results) == 1 {
										if bv, ok := constBool(ret.Results[0]); ok && refusing[bv] {
											rejects = true
										}
									}
								}
							}
						}
					}
					if rejects {
						tests[p] = x
						testBlocks = append(testBlocks, anchor)
					}
				case *ssa.MapUpdate:
					p := pair{keyField(x.Key), mapField(x.Map)}
					if p.acc != "" && p.m != "" {
						acqs[p] = x
						acqBlocks = append(acqBlocks, anchor)
					}
				}
			}
		}
	}
	for _, p := range []pair{{"Read", "writeLocks"}, {"Write", "readLocks"}, {"Write", "writeLocks"}} {
		_, ok := tests[p]
		c.check(ok, rule, "tryLock:test:"+p.acc+"-vs-"+p.m, tryLock.Pos(), "a held "+p.m+" entry makes a request that needs the account for "+p.acc+" wait",
			fmt.Sprintf("tryLock does not refuse a request that needs an account for %s while it is in %s: two holders can overlap on a shared account with a writer", p.acc, p.m))
	}
	var acqNames []string
	for p := range acqs {
		acqNames = append(acqNames, p.acc+"->"+p.m)
	}
	sort.Strings(acqNames)
	c.check(strings.Join(acqNames, ",") == "Read->readLocks,Write->writeLocks", rule, "tryLock:acquisitions", tryLock.Pos(), "acquisitions are exactly Read->readLocks, Write->writeLocks",
		"tryLock's acquisitions are ["+strings.Join(acqNames, ",")+"], expected exactly Read->readLocks, Write->writeLocks")
	// no test reachable from an acquisition (all tests complete before anything is taken)
	reach := map[*ssa.BasicBlock]bool{}
	var walk func(b *ssa.BasicBlock)
	walk = func(b *ssa.BasicBlock) {
		for _, s := range b.Succs {
			if !reach[s] {
				reach[s] = true
				walk(s)
			}
		}
	}
	for _, b := range acqBlocks {
		walk(b)
	}
	interleaved := false
	for _, b := range testBlocks {
		if reach[b] {
			interleaved = true
		}
	}
	c.check(!interleaved && len(acqBlocks) > 0, rule, "tryLock:tests-before-acquisitions", tryLock.Pos(), "no compatibility test is reachable from an acquisition: the whole request is checked before anything is taken",
		"a compatibility test is reachable after an acquisition in tryLock: a request can be refused after it already took some accounts")
	// read locks are counted: Add(1) in tryLock
	counted := false
	for _, sc := range scopes {
		allCalls(sc.fn, func(ci ssa.CallInstruction) {
			if calleeFullName(ci) == "(*sync/atomic.Int64).Add" {
				if n, ok := constInt(ci.Common().Args[1]); ok && n == 1 {
					counted = true
				}
			}
		})
	}
	c.check(counted, rule, "tryLock:read-locks-counted", tryLock.Pos(), "each read acquisition increments the per-account counter", "tryLock does not count read holders: the first reader to leave would release the account for writers while others still read")
	// unlock mirrors
	dels := map[pair]*ssa.Call{}
	// unlock and the helpers of the package it delegates to (`free`)
	unlockFns := []*ssa.Function{unlock}
	{
		seenU := map[*ssa.Function]bool{unlock: true}
		for i := 0; i < len(unlockFns) && i < 8; i++ {
			allCalls(unlockFns[i], func(ci ssa.CallInstruction) {
				if g := staticCallee(ci); g != nil && fnPkgPath(g) == pkgCommand && len(g.Blocks) > 0 && !seenU[g] && g != tryLock {
					seenU[g] = true
					unlockFns = append(unlockFns, g)
				}
			})
		}
	}
	delFn := map[*ssa.Call]*ssa.Function{}
	for _, uf := range unlockFns {
		uf := uf
		allCalls(uf, func(ci ssa.CallInstruction) {
			call, ok := ci.(*ssa.Call)
			if !ok {
				return
			}
			if bi, ok := call.Call.Value.(*ssa.Builtin); ok && bi.Name() == "delete" {
				p := pair{keyField(call.Call.Args[1]), mapField(call.Call.Args[0])}
				if p.acc != "" && p.m != "" {
					dels[p] = call
					delFn[call] = uf
				}
			}
		})
	}
	var delNames []string
	for p := range dels {
		delNames = append(delNames, p.acc+"->"+p.m)
	}
	sort.Strings(delNames)
	c.check(strings.Join(delNames, ",") == "Read->readLocks,Write->writeLocks", rule, "unlock:releases-mirror-acquisitions", unlock.Pos(), "unlock deletes exactly what tryLock takes",
		"unlock releases ["+strings.Join(delNames, ",")+"], expected exactly Read->readLocks, Write->writeLocks")
	// the read entry is deleted only when Add(-1) == 0
	if d := dels[pair{"Read", "readLocks"}]; d != nil {
		guarded := false
		pr := &PathRule{
			Edge: func(pc *PathCtx, s uint64, from *ssa.BasicBlock, si int) (uint64, bool) {
				for _, f := range pc.edgeFacts(from, si) {
					if call, ok := f.X.(*ssa.Call); ok && calleeFullName(call) == "(*sync/atomic.Int64).Add" {
						if n, ok := constInt(call.Call.Args[1]); ok && n == -1 {
							if z, ok := constInt(f.Y); ok && z == 0 {
								if f.Eq {
									return s | 1, true
								}
								return s &^ 1, true
							}
						}
					}
				}
				return s, true
			},
			Step: func(pc *PathCtx, s uint64, ins ssa.Instruction) uint64 {
				if ins == ssa.Instruction(d) {
					if s&1 != 0 {
						guarded = true
					} else {
						guarded = false
						c.bad(rule, "unlock:read-entry-deleted-at-zero", d.Pos(), "the readLocks entry is deleted on a path where the holder counter was not decremented to zero")
					}
				}
				if call, ok := ins.(*ssa.Call); ok && calleeFullName(call) == "(*sync/atomic.Int64).Add" {
					return s &^ 1
				}
				return s
			},
		}
		c.RunPaths(delFn[d], 0, pr)
		if guarded {
			c.ok(rule, "unlock:read-entry-deleted-at-zero", d.Pos(), "delete(readLocks, account) only on the edge Add(-1) == 0")
		}
	}
	c.NSites += len(tests) + len(acqs) + len(dels)
}

// ---- R15c / R15d ---------------------------------------------------------------------------------

const (
	cdMU = 1 << iota
	cdNEEDRECHECK
	cdCANCEL
	cdGRANTED
	cdNOTGRANTED
	cdUNLOCKED
	cdRECHECKED
	cdREMOVED
)

func ruleR15cd(c *Ctx) {
	lm := c.lockModel("R15c")
	mu, unlockFn, tryLockFn, fAcquired := lm.mu, lm.unlock, lm.tryLock, lm.acquired
	if mu == nil || unlockFn == nil || tryLockFn == nil || fAcquired == nil {
		return
	}
	// the queue re-examination: a function of package command that walks the intents list
	// (LinkedList.FirstNode) and calls tryLock on its elements
	isRecheck := func(fn *ssa.Function) bool {
		first, try := false, false
		allCalls(fn, func(ci ssa.CallInstruction) {
			if f := staticCallee(ci); f != nil {
				o := f
				if f.Origin() != nil {
					o = f.Origin()
				}
				if fnPkgPath(o) == libsPath+"/collectionutils" && recvTypeName(o) == "LinkedList" && (o.Name() == "FirstNode" || o.Name() == "ForEach") {
					first = true
				}
				if f == tryLockFn {
					try = true
				}
			}
		})
		return first && try
	}
	oblC := newOblSet(c, "R15c")
	oblD := newOblSet(c, "R15d")
	defer oblC.flush()
	defer oblD.flush()
	nUnlockCalls, nCancelArms := 0, 0
	for _, root := range c.entryPoints(pkgCommand) {
		// does this entry point (transitively) call lockIntent.unlock or wait on ctx.Done with intents?
		relevant := c.reachesStatic(root, func(ci ssa.CallInstruction) bool { return callsFn(ci, unlockFn) }, map[*ssa.Function]int{}, 0)
		for _, f := range withLiterals(root) {
			allCalls(f, func(ci ssa.CallInstruction) {
				if callsFn(ci, unlockFn) {
					relevant = true
				}
			})
		}
		if !relevant {
			continue
		}
		name := fnName(root)
		// cancellation arm: a blocking select with a receive on ctx.Done()
		var sel *ssa.Select
		doneIdx := -1
		for _, b := range root.Blocks {
			for _, ins := range b.Instrs {
				if s, ok := ins.(*ssa.Select); ok && s.Blocking {
					for i, st := range s.States {
						if call, ok := st.Chan.(*ssa.Call); ok && call.Call.IsInvoke() && call.Call.Method.Name() == "Done" {
							sel, doneIdx = s, i
						}
					}
				}
			}
		}
		if sel != nil {
			nCancelArms++
			oblD.expect(name+":cancel-reconciles-under-mutex", sel.Pos(), "on the cancellation arm every path to the error return holds the mutex and either removes the queued intent or gives back a concurrent grant and rechecks")
		}
		isAcquiredChan := func(v ssa.Value) bool {
			f, _ := anyFieldRead(v)
			return sameField(f, fAcquired)
		}
		pr := &PathRule{
			DeferID: func(df *ssa.Defer) int {
				if mutexOp(df, mu) == "unlock" {
					return 0
				}
				return -1
			},
			RunDeferred: func(pc *PathCtx, s uint64, df *ssa.Defer) uint64 {
				if s&cdNEEDRECHECK != 0 {
					oblC.violate(fnName(pc.Fn())+":recheck-after-unlock", df.Pos(), "the mutex is released after lockIntent.unlock without re-examining the waiting requests: a waiter whose accounts just became free is never granted", pc.Trail())
				}
				return s &^ (cdMU | cdNEEDRECHECK)
			},
			Inline: func(ci ssa.CallInstruction) []*ssa.Function {
				var out []*ssa.Function
				for _, f := range c.CalleesOf(ci) {
					if fnPkgPath(f) == pkgCommand && f != unlockFn && f != tryLockFn && !isRecheck(f) {
						out = append(out, f)
					}
				}
				return out
			},
			Step: func(pc *PathCtx, s uint64, ins ssa.Instruction) uint64 {
				ci, ok := ins.(ssa.CallInstruction)
				if !ok {
					return s
				}
				switch mutexOp(ci, mu) {
				case "lock":
					return s | cdMU
				case "unlock":
					if s&cdNEEDRECHECK != 0 {
						oblC.violate(fnName(pc.Fn())+":recheck-after-unlock", ci.Pos(), "the mutex is released after lockIntent.unlock without re-examining the waiting requests: a waiter whose accounts just became free is never granted", pc.Trail())
					}
					return s &^ (cdMU | cdNEEDRECHECK)
				}
				if callsFn(ci, unlockFn) {
					nUnlockCalls++
					oblC.expect(fnName(pc.Fn())+":recheck-after-unlock", ci.Pos(), "every release of accounts is followed, under the mutex, by the queue re-examination")
					if s&cdMU == 0 && s&cdCANCEL != 0 {
						oblD.violate(name+":cancel-reconciles-under-mutex", ci.Pos(), "accounts are given back on the cancellation arm without holding the mutex", pc.Trail())
					}
					return s | cdNEEDRECHECK | cdUNLOCKED
				}
				for _, f := range c.CalleesOf(ci) {
					if isRecheck(f) {
						s &^= cdNEEDRECHECK
						s |= cdRECHECKED
						return s
					}
					o := f
					if f.Origin() != nil {
						o = f.Origin()
					}
					if fnPkgPath(o) == libsPath+"/collectionutils" && (o.Name() == "RemoveValue" || o.Name() == "RemoveFirst" || o.Name() == "Remove") {
						if s&cdCANCEL != 0 {
							if s&cdMU == 0 {
								oblD.violate(name+":cancel-reconciles-under-mutex", ci.Pos(), "the cancelled intent is removed from the queue without holding the mutex: it races with a concurrent grant (recheck)", pc.Trail())
							}
							s |= cdREMOVED
						}
					}
				}
				return s
			},
			Edge: func(pc *PathCtx, s uint64, from *ssa.BasicBlock, si int) (uint64, bool) {
				for _, f := range edgeFacts(from, si) {
					// `if intent.isAcquired()`: a helper that probes the acquired channel without blocking
					if call, ok := f.X.(*ssa.Call); ok && s&cdCANCEL != 0 {
						if g := staticCallee(call); g != nil && isAcquiredProbe(g, isAcquiredChan) {
							if b, isB := constBool(f.Y); isB {
								if b == f.Eq {
									s |= cdGRANTED
								} else {
									s |= cdNOTGRANTED
								}
							}
						}
					}
				}
				for _, f := range pc.edgeFacts(from, si) {
					e, ok := f.X.(*ssa.Extract)
					if !ok || e.Index != 0 {
						continue
					}
					sl, ok := e.Tuple.(*ssa.Select)
					if !ok {
						continue
					}
					n, ok := constInt(f.Y)
					if !ok {
						continue
					}
					if sl == sel && int(n) == doneIdx && f.Eq {
						s |= cdCANCEL
					}
					if sl != sel && !sl.Blocking && s&cdCANCEL != 0 {
						// non-blocking select: is state n a receive on intent.acquired?
						if int(n) < len(sl.States) && isAcquiredChan(sl.States[n].Chan) {
							if f.Eq {
								s |= cdGRANTED
							} else if len(sl.States) == 1 {
								s |= cdNOTGRANTED
							}
						}
					}
				}
				return s, true
			},
			Exit: func(pc *PathCtx, s uint64, ins ssa.Instruction) {
				if pc.Fn() != root {
					return
				}
				if _, isRet := ins.(*ssa.Return); !isRet || s&cdCANCEL == 0 {
					return
				}
				okGranted := s&cdGRANTED != 0 && s&cdUNLOCKED != 0 && s&cdRECHECKED != 0
				okQueued := s&cdNOTGRANTED != 0 && s&cdREMOVED != 0
				if s&cdNOTGRANTED != 0 && s&cdUNLOCKED != 0 {
					oblD.violate(name+":cancel-reconciles-under-mutex", ins.Pos(), "a cancelled request that was NOT granted gives accounts back: it deletes the lock entries of the current holder, a third request then reads the balance before the holder's log is persisted", pc.Trail())
				}
				if !okGranted && !okQueued {
					what := "does not examine whether the intent was granted meanwhile"
					if s&cdGRANTED != 0 {
						what = "sees the concurrent grant but does not give the accounts back and recheck"
					} else if s&cdNOTGRANTED != 0 {
						what = "leaves the cancelled intent in the queue"
					}
					oblD.violate(name+":cancel-reconciles-under-mutex", ins.Pos(), "a path from the ctx.Done() arm to the error return "+what+": a cancellation that coincides with a grant returns an error while the accounts stay locked (or the abandoned request is granted later)", pc.Trail())
				}
				if s&cdMU != 0 {
					oblD.violate(name+":cancel-reconciles-under-mutex", ins.Pos(), "the cancellation arm returns with the mutex held", pc.Trail())
				}
			},
		}
		c.RunPaths(root, 0, pr)
	}
	// R15e: the re-examination walks the whole queue. If it asks a node for its successor after removing that
	// node (grant = remove + close), LinkedListNode.Remove must leave the node's own forward link intact;
	// otherwise the walk stops at the first grant and the other requests that became grantable stay queued.
	ruleR15e(c, isRecheck)
	ruleR15g(c, "R15g")
	ruleLockListDetails(c, "R15h")
	ruleAccessorsAgreeWithWalks(c, "R15i")
	if nUnlockCalls == 0 {
		oblC.undecided("floor:unlock-call-sites", token.NoPos, "no call of lockIntent.unlock found")
	}
	if nCancelArms == 0 {
		oblD.undecided("floor:cancellation-arm", token.NoPos, "no blocking select on ctx.Done() found in the lock manager: cancellation handling moved or was removed")
	}
}

func ruleR15e(c *Ctx, isRecheck func(fn *ssa.Function) bool) {
	const rule = "R15e"
	pkgCU := libsPath + "/collectionutils"
	isNodeMethod := func(ci ssa.CallInstruction, name string) (ssa.Value, bool) {
		f := staticCallee(ci)
		if f == nil || fnPkgPath(origin(f)) != pkgCU || recvTypeName(origin(f)) != "LinkedListNode" || origName(f) != name {
			return nil, false
		}
		return ci.Common().Args[0], true
	}
	nWalks := 0
	needsSafeRemoval := false
	var where ssa.Instruction
	for _, fn := range c.FuncsIn(pkgCommand) {
		if !isRecheck(fn) {
			continue
		}
		nWalks++
		idx := map[ssa.Value]uint{}
		pr := &PathRule{
			Step: func(pc *PathCtx, s uint64, ins ssa.Instruction) uint64 {
				ci, ok := ins.(ssa.CallInstruction)
				if !ok {
					// a new value of the loop variable: a different node
					if phi, isPhi := ins.(*ssa.Phi); isPhi {
						if i, ok := idx[phi]; ok {
							s &^= 1 << i
						}
					}
					return s
				}
				if v, ok := isNodeMethod(ci, "Remove"); ok {
					if _, have := idx[v]; !have {
						idx[v] = uint(len(idx))
					}
					return s | 1<<idx[v]
				}
				if v, ok := isNodeMethod(ci, "Next"); ok {
					if i, have := idx[v]; have && s&(1<<i) != 0 {
						needsSafeRemoval = true
						where = ins
					}
				}
				return s
			},
		}
		c.RunPaths(fn, 0, pr)
	}
	if nWalks == 0 {
		c.undecided(rule, "floor:queue-walk", token.NoPos, "no function of package command walks the intents list")
		return
	}
	if !needsSafeRemoval {
		c.ok(rule, "queue-walk:successor-read-before-removal", token.NoPos, "the queue walk never asks a removed node for its successor")
		return
	}
	// Remove must not overwrite the receiver's own nextNode
	var remove *ssa.Function
	for f := range c.AllFns {
		if fnPkgPath(origin(f)) == pkgCU && recvTypeName(origin(f)) == "LinkedListNode" && origName(f) == "Remove" && len(f.Blocks) > 0 {
			if remove == nil || f.String() < remove.String() {
				remove = f
			}
		}
	}
	if remove == nil {
		c.undecided(rule, "anchor:LinkedListNode.Remove", token.NoPos, "not found")
		return
	}
	clobbers := false
	var pos token.Pos
	recv := remove.Params[0]
	for _, b := range remove.Blocks {
		for _, ins := range b.Instrs {
			st, ok := ins.(*ssa.Store)
			if !ok {
				continue
			}
			if fa, ok := st.Addr.(*ssa.FieldAddr); ok && fa.X == ssa.Value(recv) {
				if f := fieldOfAddr(fa); f != nil && f.Name() == "nextNode" {
					clobbers = true
					pos = st.Pos()
				}
			}
		}
	}
	if clobbers {
		c.bad(rule, "LinkedListNode.Remove:keeps-forward-link", pos, "LinkedListNode.Remove overwrites the removed node's own nextNode, while the lock manager's queue walk ("+c.pos(where.Pos())+") calls Next() on a node it has just removed: the walk stops after the first grant, so other pending requests whose conflicting holders have released are not granted")
	} else {
		c.ok(rule, "LinkedListNode.Remove:keeps-forward-link", remove.Pos(), "Remove leaves the removed node's forward link intact (the queue walk continues past a granted request)")
	}
}


// isAcquiredProbe: fn is `select { case <-x.acquired: return true; default: return false }`.
func isAcquiredProbe(fn *ssa.Function, isAcquiredChan func(ssa.Value) bool) bool {
	if len(fn.Blocks) == 0 || fn.Signature.Results().Len() != 1 {
		return false
	}
	var sel *ssa.Select
	for _, b := range fn.Blocks {
		for _, ins := range b.Instrs {
			switch x := ins.(type) {
			case *ssa.Select:
				if sel != nil || x.Blocking || len(x.States) != 1 || !isAcquiredChan(x.States[0].Chan) {
					return false
				}
				sel = x
			case *ssa.Store, *ssa.MapUpdate, *ssa.Go, *ssa.Defer, *ssa.Call:
				return false
			}
		}
	}
	if sel == nil {
		return false
	}
	sum := summarisePredicate(fn, 0)
	if sum == nil {
		return false
	}
	// true exactly on the receive arm
	okTrue, okFalse := len(sum[true]) > 0, len(sum[false]) > 0
	for _, fs := range sum[true] {
		got := false
		for _, f := range fs {
			if e, ok := f.X.(*ssa.Extract); ok && e.Tuple == ssa.Value(sel) && e.Index == 0 {
				if n, ok := constInt(f.Y); ok && n == 0 && f.Eq {
					got = true
				}
			}
		}
		okTrue = okTrue && got
	}
	return okTrue && okFalse
}
