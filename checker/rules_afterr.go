package main

// "An error answer ends the handler" (R18h for the bulk handler, R09k for the handlers that create transactions).
//
// Every HTTP handler of internal/api answers a request it rejects (undecodable body, invalid parameter) through an
// error responder and returns. If the `return` is missing the handler goes on with a half-decoded request: it calls
// the engine with it (a bulk whose elements are executed although the request was answered 400; a transaction built
// from a request that failed validation) and writes a second answer. Rule, for every function of internal/api/**
// that takes an http.ResponseWriter: on no path does a call of an error responder (a function given the
// ResponseWriter whose every WriteHeader — through the helpers it calls — writes a constant status >= 400) precede a
// call of backend.Ledger / backend.Backend, of a function of the package that reaches one (ProcessBulk), or of a
// success responder.

import (
	"fmt"
	"go/token"
	"go/types"
	"strings"

	"golang.org/x/tools/go/ssa"
)

type responderKind int

const (
	respNone responderKind = iota
	respError
	respSuccess
	// answers an error on some of its paths and tells its caller through a bool or error result
	// (`v, ok := decodeBody(w, r)`): analysed inline, so that the answer is seen on the failing path only
	respConditional
)

func ruleAnswerEndsHandler(c *Ctx, rule string, only func(fn *ssa.Function) bool, floor int) {
	isRW := func(t types.Type) bool { return isNamed(t, "net/http", "ResponseWriter") }
	memo := map[*ssa.Function]responderKind{}
	// statuses written by fn (through the helpers it gives the ResponseWriter to), with the constant arguments of the
	// call bound to the helper's parameters (`writeErrorResponse(w, http.StatusBadRequest, …)`)
	var statuses func(fn *ssa.Function, bind map[*ssa.Parameter]ssa.Value, depth int) (nErr, nOK int)
	statuses = func(fn *ssa.Function, bind map[*ssa.Parameter]ssa.Value, depth int) (nErr, nOK int) {
		if len(fn.Blocks) == 0 || depth > 3 {
			return 0, 0
		}
		hasRW := false
		for _, p := range fn.Params {
			if isRW(p.Type()) {
				hasRW = true
			}
		}
		if !hasRW {
			return 0, 0
		}
		resolve := func(v ssa.Value) ssa.Value {
			v = strip(v)
			if p, ok := v.(*ssa.Parameter); ok && bind != nil {
				if a, ok := bind[p]; ok {
					return a
				}
			}
			return v
		}
		allCalls(fn, func(ci ssa.CallInstruction) {
			cc := ci.Common()
			if cc.IsInvoke() && cc.Method.Name() == "WriteHeader" && isRW(cc.Value.Type()) && len(cc.Args) == 1 {
				if n, ok := constInt(resolve(cc.Args[0])); ok {
					if n >= 400 {
						nErr++
					} else {
						nOK++
					}
				} else {
					nOK++ // a computed status: not an error-only responder
					nErr++
				}
				return
			}
			if g := staticCallee(ci); g != nil && inRepo(fnPkgPath(origin(g))) && g != fn {
				nb := map[*ssa.Parameter]ssa.Value{}
				for i, p := range g.Params {
					if i < len(cc.Args) {
						nb[p] = resolve(cc.Args[i])
					}
				}
				e, o := statuses(g, nb, depth+1)
				nErr += e
				nOK += o
			}
		})
		return
	}
	isHandlerSig := func(fn *ssa.Function) bool {
		ps := fn.Signature.Params()
		if fn.Signature.Recv() != nil || ps.Len() != 2 || !isRW(ps.At(0).Type()) || fn.Signature.Results().Len() != 0 {
			return false
		}
		pt, ok := ps.At(1).Type().(*types.Pointer)
		return ok && isNamed(pt.Elem(), "net/http", "Request")
	}
	kindOf := func(fn *ssa.Function, depth int) responderKind {
		if k, ok := memo[fn]; ok {
			return k
		}
		if isHandlerSig(fn) {
			memo[fn] = respNone // a handler answers; it is not a responder other handlers call
			return respNone
		}
		nErr, nOK := statuses(fn, nil, 0)
		k := respNone
		switch {
		case nErr > 0 && nOK == 0:
			k = respError
			if rs := fn.Signature.Results(); rs.Len() > 0 && (boolResultIdx(fn.Signature) >= 0 || isErrorType(rs.At(rs.Len()-1).Type())) {
				k = respConditional
			}
		case nOK > 0 && nErr == 0:
			k = respSuccess
		}
		memo[fn] = k
		return k
	}
	ledgerIface := c.Named(modPath+"/internal/api/backend", "Ledger")
	backendIface := c.Named(modPath+"/internal/api/backend", "Backend")
	reachMemo := map[*ssa.Function]int{}
	var reachesEngine func(fn *ssa.Function, depth int) bool
	reachesEngine = func(fn *ssa.Function, depth int) bool {
		if st, ok := reachMemo[fn]; ok {
			return st == 1
		}
		reachMemo[fn] = 2
		found := false
		if depth <= 3 {
			allCalls(fn, func(ci ssa.CallInstruction) {
				cc := ci.Common()
				if cc.IsInvoke() {
					if n := namedOf(cc.Value.Type()); n != nil && (n == ledgerIface || n == backendIface) {
						found = true
					}
					return
				}
				if g := staticCallee(ci); g != nil && strings.HasPrefix(fnPkgPath(origin(g)), modPath+"/internal/api") && len(g.Blocks) > 0 && g != fn {
					if reachesEngine(g, depth+1) {
						found = true
					}
				}
			})
		}
		if found {
			reachMemo[fn] = 1
		}
		return found
	}
	n := 0
	for _, fn := range c.RepoFuncs() {
		pk := fnPkgPath(origin(fn))
		if !strings.HasPrefix(pk, modPath+"/internal/api") || len(fn.Blocks) == 0 || fn.Synthetic != "" {
			continue
		}
		if strings.HasSuffix(c.Fset.Position(fn.Pos()).Filename, "_test.go") || (only != nil && !only(fn)) {
			continue
		}
		hasRW := false
		for _, p := range fn.Params {
			if isRW(p.Type()) {
				hasRW = true
			}
		}
		for _, fv := range fn.FreeVars {
			if pt, ok := fv.Type().(*types.Pointer); ok && isRW(pt.Elem()) {
				hasRW = true
			}
		}
		if !hasRW || kindOf(fn, 0) == respError || kindOf(fn, 0) == respConditional {
			continue
		}
		// does it answer errors at all?
		answers := false
		allCalls(fn, func(ci ssa.CallInstruction) {
			if g := staticCallee(ci); g != nil && (kindOf(g, 0) == respError || kindOf(g, 0) == respConditional) {
				answers = true
			}
		})
		if !answers {
			continue
		}
		n++
		c.seeFn(fn)
		key := fnName(fn) + ":error-answer-ends-the-handler"
		obl := newOblSet(c, rule)
		obl.expect(key, fn.Pos(), "no engine call and no second answer after an error answer")
		pr := &PathRule{
			MaxDepth: 3,
			Inline: func(call ssa.CallInstruction) []*ssa.Function {
				if g := staticCallee(call); g != nil && len(g.Blocks) > 0 && kindOf(g, 0) == respConditional {
					return []*ssa.Function{g}
				}
				return nil
			},
			Step: func(pc *PathCtx, s uint64, ins ssa.Instruction) uint64 {
				ci, ok := ins.(ssa.CallInstruction)
				if !ok {
					return s
				}
				if _, isDefer := ins.(*ssa.Defer); isDefer {
					return s
				}
				cc := ci.Common()
				if g := staticCallee(ci); g != nil {
					switch kindOf(g, 0) {
					case respError, respConditional: // (a conditional responder reaches here only when it could not be inlined)
						return s | 1
					case respSuccess:
						if s&1 != 0 {
							obl.violate(key, ins.Pos(), fmt.Sprintf("%s writes a success answer on a path that has already answered an error: the `return` after the error answer is missing", fnName(fn)), pc.Trail())
						}
						return s
					}
					if s&1 != 0 && strings.HasPrefix(fnPkgPath(origin(g)), modPath+"/internal/api") && reachesEngine(g, 0) {
						obl.violate(key, ins.Pos(), fmt.Sprintf("%s calls %s (which reaches the engine) on a path that has already answered an error: the rejected request is executed all the same", fnName(fn), g.Name()), pc.Trail())
					}
					return s
				}
				if cc.IsInvoke() && s&1 != 0 {
					if nn := namedOf(cc.Value.Type()); nn != nil && (nn == ledgerIface || nn == backendIface) {
						obl.violate(key, ins.Pos(), fmt.Sprintf("%s calls the engine (%s) on a path that has already answered an error: the rejected request is executed all the same", fnName(fn), cc.Method.Name()), pc.Trail())
					}
				}
				return s
			},
		}
		c.RunPaths(fn, 0, pr)
		obl.flush()
	}
	if n < floor {
		c.undecided(rule, "floor:handlers-answering-errors", token.NoPos, fmt.Sprintf("expected at least %d handlers that answer errors, found %d", floor, n))
	}
}
