package main

// lockmodel.go — the anchors of the account lock manager (package command), resolved by name and, when a refactoring
// renamed or moved them, by what they are:
//   mu        the sync.Mutex field of DefaultLocker
//   mWrite    the map[string]struct{} field (accounts held for writing)
//   mRead     the other map field (readers per account)
//   intents   the pointer-to-LinkedList field (waiting requests)
//   acquired  the channel field of lockIntent (closed when the request is granted)
//   tryLock   the outermost function of the package with a single bool result that (through package helpers) records
//             an account in mWrite — the "grant if compatible" step
//   unlock    the function of the package that deletes from mWrite — the "give the accounts back" step

import (
	"go/token"
	"go/types"
	"sort"

	"golang.org/x/tools/go/ssa"
)

type lockModel struct {
	mu, mRead, mWrite, intents, acquired *types.Var
	tryLock, unlock                      *ssa.Function
}

func (c *Ctx) lockModel(rule string) *lockModel {
	if c.lockM != nil {
		return c.lockM
	}
	m := &lockModel{}
	c.lockM = m
	isMutex := func(t types.Type) bool { return isNamed(t, "sync", "Mutex") }
	isSetMap := func(t types.Type) bool {
		mp, ok := t.Underlying().(*types.Map)
		if !ok {
			return false
		}
		stt, ok := mp.Elem().Underlying().(*types.Struct)
		return ok && stt.NumFields() == 0
	}
	isCountMap := func(t types.Type) bool {
		_, ok := t.Underlying().(*types.Map)
		return ok && !isSetMap(t)
	}
	isList := func(t types.Type) bool {
		n := namedOf(t)
		return n != nil && n.Obj().Name() == "LinkedList"
	}
	isChan := func(t types.Type) bool { _, ok := t.Underlying().(*types.Chan); return ok }
	m.mu = c.MustFieldLike(rule, pkgCommand, "DefaultLocker", "mu", isMutex)
	m.mWrite = c.MustFieldLike(rule, pkgCommand, "DefaultLocker", "writeLocks", isSetMap)
	m.mRead = c.MustFieldLike(rule, pkgCommand, "DefaultLocker", "readLocks", isCountMap)
	m.intents = c.MustFieldLike(rule, pkgCommand, "DefaultLocker", "intents", isList)
	m.acquired = c.MustFieldLike(rule, pkgCommand, "lockIntent", "acquired", isChan)
	m.tryLock = c.Fn(pkgCommand, "lockIntent.tryLock")
	m.unlock = c.Fn(pkgCommand, "lockIntent.unlock")
	if m.mWrite == nil {
		return m
	}
	// structural resolution of the two functions
	writesSet := func(fn *ssa.Function) (update, del bool) {
		for _, b := range fn.Blocks {
			for _, ins := range b.Instrs {
				switch x := ins.(type) {
				case *ssa.MapUpdate:
					if _, ok := fieldRead(x.Map, m.mWrite); ok {
						update = true
					}
				case *ssa.Call:
					if bi, ok := x.Call.Value.(*ssa.Builtin); ok && bi.Name() == "delete" {
						if _, ok := fieldRead(x.Call.Args[0], m.mWrite); ok {
							del = true
						}
					}
				}
			}
		}
		return
	}
	var reachUpdate func(fn *ssa.Function, depth int, seen map[*ssa.Function]bool) bool
	reachUpdate = func(fn *ssa.Function, depth int, seen map[*ssa.Function]bool) bool {
		if seen[fn] || depth > 2 {
			return false
		}
		seen[fn] = true
		if u, _ := writesSet(fn); u {
			return true
		}
		found := false
		allCalls(fn, func(ci ssa.CallInstruction) {
			if g := staticCallee(ci); g != nil && fnPkgPath(origin(g)) == pkgCommand && len(g.Blocks) > 0 && g.Parent() == nil {
				if reachUpdate(g, depth+1, seen) {
					found = true
				}
			}
		})
		return found
	}
	if m.tryLock == nil {
		var cands []*ssa.Function
		for _, fn := range c.FuncsIn(pkgCommand) {
			if fn.Parent() != nil || len(fn.Blocks) == 0 || fn.Synthetic != "" || fn.Signature.Results().Len() != 1 {
				continue
			}
			if bt, ok := fn.Signature.Results().At(0).Type().Underlying().(*types.Basic); !ok || bt.Kind() != types.Bool {
				continue
			}
			if reachUpdate(fn, 0, map[*ssa.Function]bool{}) {
				cands = append(cands, fn)
			}
		}
		sort.Slice(cands, func(i, j int) bool { return cands[i].Pos() < cands[j].Pos() })
		// the outermost: not called by another candidate
		for _, f := range cands {
			inner := false
			for _, g := range cands {
				if g == f {
					continue
				}
				allCalls(g, func(ci ssa.CallInstruction) {
					if staticCallee(ci) == f {
						inner = true
					}
				})
			}
			if !inner && m.tryLock == nil {
				m.tryLock = f
			}
		}
	}
	if m.unlock == nil {
		var cands []*ssa.Function
		for _, fn := range c.FuncsIn(pkgCommand) {
			if fn.Parent() != nil || len(fn.Blocks) == 0 || fn.Synthetic != "" {
				continue
			}
			if _, d := writesSet(fn); d {
				cands = append(cands, fn)
			}
		}
		sort.Slice(cands, func(i, j int) bool { return cands[i].Pos() < cands[j].Pos() })
		if len(cands) == 1 {
			m.unlock = cands[0]
		}
	}
	if m.tryLock == nil {
		c.undecided(rule, "anchor:lock-manager.grant-step", token.NoPos, "no function of package command with a bool result that records accounts in the write-lock table (lockIntent.tryLock)")
	}
	if m.unlock == nil {
		c.undecided(rule, "anchor:lock-manager.release-step", token.NoPos, "no single function of package command that deletes from the write-lock table (lockIntent.unlock)")
	}
	return m
}
