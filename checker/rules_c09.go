package main

import (
	"fmt"
	"go/token"
	"go/types"
	"strings"

	"golang.org/x/tools/go/ssa"
)

func init() {
	register("C09", propMeta{
		Level: "other",
		Explanation: "Structure of the posting→script translation decided for every list of postings: R09a (clean provenance) every piece of text written into the generated script is a constant, or a constant format filled with generated variable names (`variable.name`, itself a constant format filled with a counter) — client text (source, destination, asset, amount) never becomes script text, it only travels in the vars map; " +
			"R09b every path through one iteration of the emitting loop, which ranges in order over the postings of the parameter, writes exactly one `send …` header; R09e attribution: the `source =` line uses the variable looked up by the current posting's Source, the `destination =` line by its Destination, the send header by the monetary key built from its Amount and Asset with the same format the registration loop uses; registered values are the posting's own fields; every variable is exported to the vars map as name→value. " +
			"R09c metadata, reference and timestamp are passed through by name into the RunScript and from the script into the committed transaction (WithDate/WithReference/WithPostings/WithMetadata). R08b (shared with C08) the compilation cache is keyed by a digest of the whole script: generated scripts that share a long prefix never run the program of another one. R09l every TransactionData/RunScript built from a transaction request (v1 and v2/bulk) takes the request's Timestamp, Reference and Metadata by name. R09k every handler of internal/api that answers an error returns before it calls the engine or answers again (a request that failed validation is never executed). R09i every request decoded inside a loop (bulk elements) is decoded into a value allocated in that iteration. R09g exact amounts: no floating-point value, math/big.Float or float parser in the packages that decode, execute and commit postings. R09d validation precedes execution (v1: Postings.Validate dominates TxToScriptData; all versions: SetVarsFromJSON precedes ResolveResources on the same machine).",
		NotDecided:  "that the VM turns each generated `send` into exactly that posting (needs the undecided part of C08); merging of identical consecutive postings by the VM, if any.",
		Trusted:     []string{"fmt.Sprintf with %d prints digits only"},
	}, runC09)
}

var c09extra func(c *Ctx)

func runC09(c *Ctx) {
	if c09extra != nil {
		c09extra(c)
	}
	ruleExactAmounts(c, "R09g")
	ruleFreshDecode(c, "R09i")
	ruleAnswerEndsHandler(c, "R09k", nil, 8)
	ruleR09l(c, "R09l")
	ruleR08b(c)
	fn := c.MustFn("R09a", pkgLedger, "TxToScriptData")
	if fn == nil {
		return
	}
	nameF := c.MustField("R09a", pkgLedger, "variable", "name")
	valueF := c.MustField("R09a", pkgLedger, "variable", "value")
	postingsF := c.MustField("R09b", pkgLedger, "TransactionData", "Postings")
	if nameF == nil || valueF == nil || postingsF == nil {
		return
	}
	pf := func(n string) *types.Var { return c.Field(pkgLedger, "Posting", n) }
	fSource, fDest, fAsset, fAmount := pf("Source"), pf("Destination"), pf("Asset"), pf("Amount")
	if fSource == nil || fDest == nil || fAsset == nil || fAmount == nil {
		c.undecided("R09a", "anchor:ledger.Posting-fields", token.NoPos, "Posting fields not found")
		return
	}
	txData := fn.Params[0]

	runTxScriptRules(c, fn, nameF, valueF, postingsF, fSource, fDest, fAsset, fAmount)
	// vars[name] = value for both maps
	nExport := 0
	for _, b := range fn.Blocks {
		for _, ins := range b.Instrs {
			mu, ok := ins.(*ssa.MapUpdate)
			if !ok {
				continue
			}
			if mt, ok := mu.Map.Type().Underlying().(*types.Map); !ok || !types.Identical(mt.Elem(), types.Typ[types.String]) {
				continue
			}
			fk, bk := anyFieldRead(mu.Key)
			fv, bv := anyFieldRead(mu.Value)
			if fk == nil || fv == nil {
				continue
			}
			nExport++
			c.check(sameField(fk, nameF) && sameField(fv, valueF) && bk == bv, "R09e", fmt.Sprintf("TxToScriptData:vars-export#%d", nExport), mu.Pos(), "vars[v.name] = v.value", "the vars map is not filled with name→value of the same variable")
		}
	}
	if nExport < 2 {
		if nExport == 0 {
			c.undecided("R09e", "TxToScriptData:vars-export", fn.Pos(), "no loop exporting a variable map into vars found in TxToScriptData: the way generated variables receive their values moved out of the shape this rule decides")
		} else {
			c.bad("R09e", "TxToScriptData:vars-export", fn.Pos(), fmt.Sprintf("expected both variable maps to be exported to vars, found %d exports: some generated variables have no value", nExport))
		}
	}

	// ---- R09c: pass-through
	runScript := c.Named(pkgLedger, "RunScript")
	if runScript != nil {
		for _, name := range []string{"Timestamp", "Metadata", "Reference"} {
			dst := c.Field(pkgLedger, "RunScript", name)
			src := c.Field(pkgLedger, "TransactionData", name)
			okPass := false
			for _, b := range fn.Blocks {
				for _, ins := range b.Instrs {
					if v, _, ok := storeToField(ins, dst); ok {
						f, base := anyFieldRead(v)
						if sameField(f, src) && isParamOrSpill(base, txData) {
							okPass = true
						}
					}
				}
			}
			c.check(okPass, "R09c", "TxToScriptData:passes-"+name, fn.Pos(), "RunScript."+name+" = txData."+name, "the generated RunScript does not carry the request's "+name)
		}
	}
	m := c.cmdModel("R09c")
	if m.ok {
		for _, ex := range m.fns {
			// the literal that builds the transaction: calls NewTransaction().With…
			var withs = map[string]ssa.Value{}
			allCalls(ex, func(ci ssa.CallInstruction) {
				f := staticCallee(ci)
				if f == nil || fnPkgPath(f) != pkgLedger || recvTypeName(f) != "Transaction" || !strings.HasPrefix(f.Name(), "With") {
					return
				}
				withs[f.Name()] = ci.Common().Args[1]
			})
			if len(withs) < 3 {
				continue
			}
			name := fnName(ex)
			chk := func(with, field, owner string) {
				v, ok := withs[with]
				if !ok {
					c.bad("R09c", name+":"+with, ex.Pos(), "the committed transaction is built without "+with)
					return
				}
				src := v
				if sl, isSl := v.(*ssa.Slice); isSl {
					src = sl
				}
				okF := false
				for _, r := range append(roots(src, nil), src) {
					f, _ := anyFieldRead(r)
					if f != nil && f.Name() == field {
						okF = true
					}
					if ct, ok := r.(*ssa.ChangeType); ok {
						if f2, _ := anyFieldRead(ct.X); f2 != nil && f2.Name() == field {
							okF = true
						}
					}
				}
				c.check(okF, "R09c", name+":"+with+"-from-"+owner+"."+field, ex.Pos(), with+"("+owner+"."+field+")", "the committed transaction's "+with+" argument is not "+owner+"."+field)
			}
			chk("WithPostings", "Postings", "result")
			chk("WithMetadata", "Metadata", "result")
			chk("WithDate", "Timestamp", "script")
			chk("WithReference", "Reference", "script")
		}
	}

	// ---- R09d: validation precedes execution
	if pt := c.MustFn("R09d", pkgV1, "postTransaction"); pt != nil {
		validate := c.methodObj(pkgLedger, "Postings", "Validate")
		// helpers of the handler (request methods, constructors) on the way to the validation or the translation
		reach := map[*ssa.Function]bool{}
		var reaches func(g *ssa.Function, depth int) bool
		reaches = func(g *ssa.Function, depth int) bool {
			if v, ok := reach[g]; ok {
				return v
			}
			reach[g] = false
			r := false
			allCalls(g, func(ci ssa.CallInstruction) {
				if isCallTo(ci, validate) || callsFn(ci, fn) {
					r = true
				} else if h := staticCallee(ci); h != nil && depth < 3 && len(h.Blocks) > 0 {
					if pp := fnPkgPath(origin(h)); pp == pkgV1 || pp == pkgLedger {
						if reaches(h, depth+1) {
							r = true
						}
					}
				}
			})
			reach[g] = r
			return r
		}
		okV, seenTx := true, false
		var at token.Pos
		// pure predicates over the decoded request that are tested more than once (`len(req.Postings) > 0` in a
		// validation helper and again in the conversion helper): a path keeps the outcome it saw first
		preds := map[string]int{}
		pr := &PathRule{
			MaxDepth: 4,
			Inline: func(call ssa.CallInstruction) []*ssa.Function {
				h := staticCallee(call)
				if h == nil || len(h.Blocks) == 0 || h == fn {
					return nil
				}
				if pp := fnPkgPath(origin(h)); (pp == pkgV1 || pp == pkgLedger) && reaches(h, 0) {
					return []*ssa.Function{h}
				}
				return nil
			},
			Step: func(pc *PathCtx, s uint64, ins ssa.Instruction) uint64 {
				ci, ok := ins.(ssa.CallInstruction)
				if !ok {
					return s
				}
				if isCallTo(ci, validate) {
					return s | 1
				}
				if callsFn(ci, fn) {
					seenTx = true
					at = ins.Pos()
					if s&1 == 0 {
						okV = false
					}
				}
				return s
			},
			Edge: func(pc *PathCtx, s uint64, from *ssa.BasicBlock, si int) (uint64, bool) {
				iff, ok := from.Instrs[len(from.Instrs)-1].(*ssa.If)
				if !ok {
					return s, true
				}
				key, neg := canonPredicate(pc, iff.Cond)
				if key == "" {
					return s, true
				}
				idx, ok := preds[key]
				if !ok {
					if len(preds) >= 20 {
						return s, true
					}
					idx = len(preds)
					preds[key] = idx
				}
				holds := (si == 0) != neg
				tbit, fbit := uint64(1)<<(2+2*idx), uint64(1)<<(3+2*idx)
				if holds {
					if s&fbit != 0 {
						return s, false
					}
					return s | tbit, true
				}
				if s&tbit != 0 {
					return s, false
				}
				return s | fbit, true
			},
		}
		c.RunPaths(pt, 0, pr)
		if !seenTx {
			c.undecided("R09d", "v1.postTransaction:validate-before-translation", pt.Pos(), "postTransaction does not reach TxToScriptData")
		} else {
			c.check(okV, "R09d", "v1.postTransaction:validate-before-translation", at, "Postings.Validate precedes TxToScriptData on every path", "v1 postTransaction translates postings that were not validated (negative amounts, malformed addresses)")
		}
	}
	if m.ok {
		setVars := c.Fn(pkgVM, "Machine.SetVarsFromJSON")
		resolve := c.Fn(pkgVM, "Machine.ResolveResources")
		n := 0
		for _, ex := range m.fns {
			var rr *ssa.Call
			allCalls(ex, func(ci ssa.CallInstruction) {
				if call, ok := ci.(*ssa.Call); ok && callsFn(ci, resolve) {
					rr = call
				}
			})
			if rr == nil {
				continue
			}
			n++
			okS := true
			pr := &PathRule{
				Step: func(pc *PathCtx, s uint64, ins ssa.Instruction) uint64 {
					if call, ok := ins.(*ssa.Call); ok && callsFn(call, setVars) && call.Call.Args[0] == rr.Call.Args[0] {
						return s | 1
					}
					if ins == ssa.Instruction(rr) && s&1 == 0 {
						okS = false
					}
					return s
				},
				Edge: func(pc *PathCtx, s uint64, from *ssa.BasicBlock, si int) (uint64, bool) {
					// the error edge of SetVarsFromJSON must not continue to execution
					for _, f := range pc.edgeFacts(from, si) {
						if call, ok := f.X.(*ssa.Call); ok && callsFn(call, setVars) && isNilConst(f.Y) && !f.Eq {
							return s | 2, true
						}
					}
					return s, true
				},
			}
			c.RunPaths(ex, 0, pr)
			c.check(okS, "R09d", fnName(ex)+":variables-validated-before-resolution", rr.Pos(), "SetVarsFromJSON (typed validation of the variables) precedes ResolveResources on the same machine", "resources are resolved on a machine whose variables were not set/validated first")
		}
		if n == 0 {
			c.undecided("R09d", "floor:ResolveResources-call", token.NoPos, "package command never calls ResolveResources")
		}
	}
}

func cleanSliceGuard(self *ssa.Phi, v ssa.Value, f func(ssa.Value, int) bool, depth int) bool {
	// break cycles through loop phis: a phi edge that is an append onto the phi itself
	if call, ok := v.(*ssa.Call); ok && self != nil {
		if bi, ok := call.Call.Value.(*ssa.Builtin); ok && bi.Name() == "append" && call.Call.Args[0] == ssa.Value(self) {
			if len(call.Call.Args) > 1 {
				return f(call.Call.Args[1], depth+1)
			}
			return true
		}
	}
	if p, ok := v.(*ssa.Phi); ok && self == nil {
		// append(phi, …) where phi is the loop variable: the phi's other edges are checked when the phi is visited
		_ = p
	}
	return f(v, depth+1)
}

func isSendWrite(call *ssa.Call) bool {
	if !strings.HasPrefix(calleeFullName(call), "(*strings.Builder).Write") {
		return false
	}
	vs := strParts(call.Call.Args[1])
	if len(vs) == 0 {
		return false
	}
	for _, parts := range vs {
		if len(parts) == 0 || !parts[0].isLit() || !strings.HasPrefix(strings.TrimSpace(parts[0].lit), "send ") {
			return false
		}
	}
	return true
}

// isParamOrSpill: v is the parameter itself or the local cell the parameter was spilled into.
func isParamOrSpill(v ssa.Value, p *ssa.Parameter) bool {
	if v == ssa.Value(p) || rootBase(v) == ssa.Value(p) {
		return true
	}
	a, ok := v.(*ssa.Alloc)
	if !ok {
		a, ok = rootBase(v).(*ssa.Alloc)
	}
	if !ok {
		return false
	}
	for _, r := range *a.Referrers() {
		if st, ok := r.(*ssa.Store); ok && st.Addr == ssa.Value(a) && st.Val == ssa.Value(p) {
			return true
		}
	}
	return false
}

func init() {
	c09extra = ruleR09f
}

// ruleR09f: the VM hands postings over field by field and position by position.
func ruleR09f(c *Ctx) {
	const rule = "R09f"
	run := c.MustFn(rule, pkgVM, "Run")
	if run == nil {
		return
	}
	// (1) vm.Run: ledger.Posting{F: posting.F} for every field, written at the index it was read from
	ledgerPosting := c.Named(pkgLedger, "Posting")
	if ledgerPosting == nil {
		c.undecided(rule, "anchor:ledger.Posting", token.NoPos, "not found")
		return
	}
	st := ledgerPosting.Underlying().(*types.Struct)
	mapped := map[string]string{}
	var srcIdx, dstIdx ssa.Value
	// the conversion loop may live in a helper of the package applied to the machine's postings
	// (`Postings: toLedgerPostings(m.Postings)`)
	var convBlocks []*ssa.BasicBlock
	convBlocks = append(convBlocks, run.Blocks...)
	helperOK := true
	allCalls(run, func(ci ssa.CallInstruction) {
		call, ok := ci.(*ssa.Call)
		if !ok {
			return
		}
		h := staticCallee(call)
		if h == nil || fnPkgPath(h) != pkgVM || len(h.Blocks) == 0 || h.Signature.Results().Len() != 1 {
			return
		}
		rt, ok := h.Signature.Results().At(0).Type().Underlying().(*types.Slice)
		if !ok || !isNamed(rt.Elem(), pkgLedger, "Posting") {
			return
		}
		convBlocks = append(convBlocks, h.Blocks...)
		// applied to the machine's Postings
		okArg := false
		for _, a := range call.Call.Args {
			if f, _ := anyFieldRead(a); f != nil && f.Name() == "Postings" {
				okArg = true
			}
		}
		if !okArg {
			helperOK = false
		}
	})
	for _, b := range convBlocks {
		for _, ins := range b.Instrs {
			s, ok := ins.(*ssa.Store)
			if !ok {
				continue
			}
			if fa, ok := s.Addr.(*ssa.FieldAddr); ok && isNamed(fa.X.Type(), pkgLedger, "Posting") {
				f := fieldOfAddr(fa)
				v := s.Val
				if ct, ok := v.(*ssa.ChangeType); ok {
					v = ct.X
				}
				if sf, base := anyFieldRead(v); sf != nil {
					mapped[f.Name()] = sf.Name()
					// base: local copy of m.Postings[i]
					if sv := singleStore(base); sv != nil {
						if u, ok := sv.(*ssa.UnOp); ok {
							if ia, ok := u.X.(*ssa.IndexAddr); ok {
								srcIdx = ia.Index
							}
						}
					}
				}
			}
			if ia, ok := s.Addr.(*ssa.IndexAddr); ok {
				if el, ok := ia.X.Type().Underlying().(*types.Slice); ok && isNamed(el.Elem(), pkgLedger, "Posting") {
					dstIdx = ia.Index
				}
			}
		}
	}
	for i := 0; i < st.NumFields(); i++ {
		n := st.Field(i).Name()
		c.check(mapped[n] == n, rule, "vm.Run:posting."+n, run.Pos(), "result posting field "+n+" is the VM posting's "+n, fmt.Sprintf("vm.Run fills ledger.Posting.%s from the VM posting's %q: postings are re-attributed", n, mapped[n]))
	}
	c.check(srcIdx != nil && srcIdx == dstIdx && helperOK, rule, "vm.Run:posting-positions", run.Pos(), "posting j of the result is posting j of the machine", "vm.Run does not copy posting j of the machine to position j of the result: postings are reordered or dropped")
	// the request metadata is merged into the result
	scriptParam := run.Params[1]
	merged := false
	for _, b := range run.Blocks {
		for _, ins := range b.Instrs {
			mu, ok := ins.(*ssa.MapUpdate)
			if !ok {
				continue
			}
			if f, _ := anyFieldRead(mu.Map); f == nil || f.Name() != "Metadata" {
				continue
			}
			// key and value come from the same Next over script.Metadata
			ek, ok1 := mu.Key.(*ssa.Extract)
			ev, ok2 := mu.Value.(*ssa.Extract)
			if ok1 && ok2 && ek.Tuple == ev.Tuple && ek.Index == 1 && ev.Index == 2 {
				if nx, ok := ek.Tuple.(*ssa.Next); ok {
					if rg, ok := nx.Iter.(*ssa.Range); ok {
						if f, base := anyFieldRead(rg.X); f != nil && f.Name() == "Metadata" && isParamOrSpill(base, scriptParam) {
							merged = true
						}
					}
				}
			}
		}
	}
	c.check(merged, rule, "vm.Run:request-metadata-merged", run.Pos(), "every entry of script.Metadata is copied into result.Metadata", "vm.Run does not copy the request's metadata into the result: supplied metadata is dropped")
	// (2) OP_SEND: Posting{Source: part.Account, Destination: dest, Asset: funding.Asset, Amount: part.Amount}
	tick := c.MustFn(rule, pkgVM, "Machine.tick")
	if tick == nil {
		return
	}
	got := map[string]string{}
	// the posting is built in tick, or in a method of the machine that tick calls for the opcode (`m.opSend()`)
	sendFns := []*ssa.Function{tick}
	seenFn := map[*ssa.Function]bool{tick: true}
	for i := 0; i < len(sendFns) && i < 40; i++ {
		allCalls(sendFns[i], func(ci ssa.CallInstruction) {
			if g := staticCallee(ci); g != nil && fnPkgPath(origin(g)) == pkgVM && len(g.Blocks) > 0 && !seenFn[g] && g.Signature.Recv() != nil {
				seenFn[g] = true
				sendFns = append(sendFns, g)
			}
		})
	}
	// a value popped from the stack: pop[T](m), or a typed wrapper of it (`m.popAccount()`)
	var isPop func(call *ssa.Call, depth int) bool
	isPop = func(call *ssa.Call, depth int) bool {
		g := staticCallee(call)
		if g == nil || depth > 2 {
			return false
		}
		if origName(g) == "pop" {
			return true
		}
		if fnPkgPath(origin(g)) != pkgVM || len(g.Blocks) == 0 {
			return false
		}
		n := 0
		for _, b := range g.Blocks {
			if r, ok := b.Instrs[len(b.Instrs)-1].(*ssa.Return); ok && len(r.Results) == 1 {
				n++
				inner, ok := r.Results[0].(*ssa.Call)
				if !ok || !isPop(inner, depth+1) {
					return false
				}
			}
		}
		return n > 0
	}
	var sendBlocks []*ssa.BasicBlock
	for _, f := range sendFns {
		sendBlocks = append(sendBlocks, f.Blocks...)
	}
	for _, b := range sendBlocks {
		for _, ins := range b.Instrs {
			s, ok := ins.(*ssa.Store)
			if !ok {
				continue
			}
			fa, ok := s.Addr.(*ssa.FieldAddr)
			if !ok || !isNamed(fa.X.Type(), pkgVM, "Posting") {
				continue
			}
			f := fieldOfAddr(fa)
			v := s.Val
			for {
				if ct, ok := v.(*ssa.ChangeType); ok {
					v = ct.X
					continue
				}
				if cv, ok := v.(*ssa.Convert); ok {
					v = cv.X
					continue
				}
				break
			}
			desc := "?"
			if sf, _ := anyFieldRead(v); sf != nil {
				desc = "field:" + sf.Name()
			} else if ex, ok := v.(*ssa.Extract); ok {
				_ = ex
				desc = "popped"
			} else if call, ok := v.(*ssa.Call); ok {
				if isPop(call, 0) {
					desc = "popped:" + types.TypeString(call.Type(), func(p *types.Package) string { return p.Name() })
				}
			}
			got[f.Name()] = desc
		}
	}
	wantSend := map[string]string{"Source": "field:Account", "Destination": "popped:machine.AccountAddress", "Asset": "field:Asset", "Amount": "field:Amount"}
	for k, w := range wantSend {
		c.check(got[k] == w, rule, "OP_SEND:posting."+k, tick.Pos(), "posting."+k+" ← "+w, fmt.Sprintf("OP_SEND fills posting.%s from %s, expected %s: the emitted posting misattributes the movement", k, got[k], w))
	}
}

// canonPredicate: a canonical text for a side-effect-free condition over fields of values the path engine can
// resolve (parameters of inlined helpers are replaced by the caller's values), "" when the condition has another
// shape. neg reports a leading negation that was stripped.
func canonPredicate(pc *PathCtx, v ssa.Value) (string, bool) {
	neg := false
	for {
		u, ok := v.(*ssa.UnOp)
		if !ok || u.Op != token.NOT {
			break
		}
		neg = !neg
		v = u.X
	}
	var canon func(v ssa.Value, depth int) string
	canon = func(v ssa.Value, depth int) string {
		if depth > 8 {
			return ""
		}
		v = pc.Resolve(v)
		switch x := v.(type) {
		case *ssa.Const:
			if x.Value == nil {
				return "nil"
			}
			return x.Value.ExactString()
		case *ssa.Alloc:
			return fmt.Sprintf("local@%d", x.Pos())
		case *ssa.Parameter:
			return fmt.Sprintf("param:%s@%d", x.Name(), x.Parent().Pos())
		case *ssa.BinOp:
			a, b := canon(x.X, depth+1), canon(x.Y, depth+1)
			if a == "" || b == "" {
				return ""
			}
			return "(" + a + " " + x.Op.String() + " " + b + ")"
		case *ssa.UnOp:
			if x.Op == token.MUL {
				if fa, ok := x.X.(*ssa.FieldAddr); ok {
					b := canon(fa.X, depth+1)
					if b == "" {
						return ""
					}
					return fmt.Sprintf("%s.#%d", b, fa.Field)
				}
				if al, ok := x.X.(*ssa.Alloc); ok {
					if sv := singleStore(al); sv != nil {
						return canon(sv, depth+1)
					}
				}
			}
		case *ssa.FieldAddr:
			b := canon(x.X, depth+1)
			if b == "" {
				return ""
			}
			return fmt.Sprintf("&%s.#%d", b, x.Field)
		case *ssa.Field:
			b := canon(x.X, depth+1)
			if b == "" {
				return ""
			}
			return fmt.Sprintf("%s.#%d", b, x.Field)
		case *ssa.Call:
			if bi, ok := x.Call.Value.(*ssa.Builtin); ok && bi.Name() == "len" {
				a := canon(x.Call.Args[0], depth+1)
				if a == "" {
					return ""
				}
				return "len(" + a + ")"
			}
		case *ssa.ChangeType:
			return canon(x.X, depth+1)
		}
		return ""
	}
	bo, ok := v.(*ssa.BinOp)
	if !ok {
		return "", false
	}
	// normalise a comparison and its complement to one key
	a, b := canon(bo.X, 0), canon(bo.Y, 0)
	if a == "" || b == "" {
		return "", false
	}
	op := bo.Op
	switch op {
	case token.NEQ:
		op, neg = token.EQL, !neg
	case token.LEQ:
		op, neg = token.GTR, !neg
	case token.GEQ:
		op, neg = token.LSS, !neg
	}
	return "(" + a + " " + op.String() + " " + b + ")", neg
}
