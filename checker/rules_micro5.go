package main

// Structural rules added after the fifth (small) micro-mutation wave.

import (
	"fmt"
	"go/token"
	"go/types"
	"sort"
	"strings"

	"golang.org/x/tools/go/ssa"
)

// R04j — "the last …" is the element at the end.
//
// A method of the in-memory store whose name says Last (GetLastLog, GetLastTransaction) and that returns an element of
// a slice indexes it from the end (`s[len(s)-k]`), not with a constant.
func ruleLastMeansLast(c *Ctx, rule string) {
	n := 0
	var fns []*ssa.Function
	for _, fn := range c.FuncsIn(modPath + "/internal/storage") {
		if len(fn.Blocks) > 0 && strings.Contains(fn.Name(), "Last") && !strings.HasSuffix(c.Fset.Position(fn.Pos()).Filename, "_test.go") {
			fns = append(fns, fn)
		}
	}
	sort.Slice(fns, func(i, j int) bool { return fns[i].Pos() < fns[j].Pos() })
	for _, fn := range fns {
		parts := append([]*ssa.Function{fn}, packageHelpersOf(fn, modPath+"/internal/storage")...)
		for _, part := range parts {
			for _, b := range part.Blocks {
				for _, ins := range b.Instrs {
					ia, ok := ins.(*ssa.IndexAddr)
					if !ok {
						continue
					}
					if _, isSlice := ia.X.Type().Underlying().(*types.Slice); !isSlice {
						continue
					}
					n++
					c.seeFn(fn)
					key := fmt.Sprintf("%s:indexes-from-the-end#%d", fnName(fn), n)
					if _, isConst := ia.Index.(*ssa.Const); isConst {
						c.bad(rule, key, ia.Pos(), fnName(fn)+" returns the element at a constant index: `the last` log or transaction is the first one as soon as there are two — after a restart the chain (or the id sequence) is resumed from a stale record")
					} else {
						c.ok(rule, key, ia.Pos(), "indexed relative to the length")
					}
				}
			}
		}
	}
	if n == 0 {
		c.undecided(rule, "floor:last-readers", token.NoPos, "no Last* method of the in-memory store indexes a slice")
	}
}

// R10n — the revert marker names the reverted transaction under the marker key.
//
// ledger.ComputeMetadata(key, value) — what MarkReverts builds the `…/state/reverts` entry with — maps its first
// parameter to its second.
func ruleComputeMetadataMaps(c *Ctx, rule string) {
	fn := c.Fn(pkgLedger, "ComputeMetadata")
	key := "ComputeMetadata:maps-key-to-value"
	if fn == nil || len(fn.Blocks) == 0 || len(fn.Params) != 2 {
		c.undecided(rule, key, token.NoPos, "ledger.ComputeMetadata(key, value) not found")
		return
	}
	c.seeFn(fn)
	n, ok := 0, true
	for _, b := range fn.Blocks {
		for _, ins := range b.Instrs {
			if mu, isMU := ins.(*ssa.MapUpdate); isMU {
				n++
				if strip(mu.Key) != ssa.Value(fn.Params[0]) || strip(mu.Value) != ssa.Value(fn.Params[1]) {
					ok = false
				}
			}
		}
	}
	if ok && n == 1 {
		c.ok(rule, key, fn.Pos(), "metadata[key] = value")
	} else {
		c.bad(rule, key, fn.Pos(), "ledger.ComputeMetadata does not map its key to its value: the transaction appended by a revert no longer names the transaction it reverts under the marker key")
	}
}

// R17k — walking a remote listing keeps every page.
//
// api.FetchAllPaginated appends the data of each decoded page before it can leave the loop: no path from the decode of
// a page to a successful return without the append.
func ruleFetchAllKeepsEveryPage(c *Ctx, rule string) {
	fn := c.firstInstance(libsPath+"/api", "FetchAllPaginated")
	key := "FetchAllPaginated:every-page-is-kept"
	if fn == nil {
		c.undecided(rule, key, token.NoPos, "api.FetchAllPaginated not found")
		return
	}
	c.seeFn(fn)
	bad := token.NoPos
	nDec := 0
	c.RunPaths(fn, 0, &PathRule{
		Step: func(pc *PathCtx, s uint64, ins ssa.Instruction) uint64 {
			call, ok := ins.(*ssa.Call)
			if !ok {
				return s
			}
			if name := calleeFullName(call); name == "(*encoding/json.Decoder).Decode" || name == "encoding/json.Unmarshal" {
				nDec++
				return s | 1
			}
			if bi, ok := call.Call.Value.(*ssa.Builtin); ok && bi.Name() == "append" {
				return s &^ 1
			}
			return s
		},
		Exit: func(pc *PathCtx, s uint64, ins ssa.Instruction) {
			r, ok := ins.(*ssa.Return)
			if ok && s&1 != 0 && len(r.Results) > 0 && isNilConst(r.Results[len(r.Results)-1]) {
				bad = r.Pos()
			}
		},
	})
	switch {
	case nDec == 0:
		c.undecided(rule, key, fn.Pos(), "no decode of a page found in FetchAllPaginated")
	case bad.IsValid():
		c.bad(rule, key, bad, "api.FetchAllPaginated returns successfully on a path where the page it decoded last was not appended: the last page (the only one for a short collection) is dropped")
	default:
		c.ok(rule, key, fn.Pos(), "every decoded page is appended before the walk can end")
	}
}
