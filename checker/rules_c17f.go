package main

// R17f — offset pagination (bunpaginate.UsingOffset): the cursors are the query moved by exactly one page.
//   fetched window   Offset(query.Offset) and Limit(query.PageSize + 1)
//   next             Offset' ≡ Offset + PageSize, built only under len(rows) > PageSize
//   previous         Offset' ≡ max(Offset − PageSize, 0), built only under Offset > 0
// Integer expressions are normalised to affine forms over the two fields (conversions are transparent, a
// two-way phi of x and 0 is max(x, 0) when it merges the `x < 0` test).

import (
	"fmt"
	"go/token"
	"go/types"
	"sort"
	"strings"

	"golang.org/x/tools/go/ssa"
)

func ruleR17f(c *Ctx) {
	const rule = "R17f"
	var cands []*ssa.Function
	for fn := range c.AllFns {
		if origName(fn) != "UsingOffset" || !strings.HasSuffix(fnPkgPath(origin(fn)), "/bun/bunpaginate") || len(fn.Blocks) == 0 || fn.Origin() == nil {
			continue
		}
		ground := true
		for _, ta := range fn.TypeArgs() {
			if mentionsTypeParam(ta, 0) {
				ground = false
			}
		}
		if ground {
			cands = append(cands, fn)
		}
	}
	sort.Slice(cands, func(i, j int) bool { return cands[i].String() < cands[j].String() })
	if len(cands) == 0 {
		c.undecided(rule, "anchor:bunpaginate.UsingOffset", token.NoPos, "no instantiated body of UsingOffset found")
		return
	}
	fn := cands[0]
	if len(fn.Params) < 3 {
		c.undecided(rule, "anchor:UsingOffset-signature", fn.Pos(), "unexpected signature")
		return
	}
	// the functions the paginator is made of: UsingOffset and the helpers of the package it calls (window, previous,
	// next), each with its own copy of the query (a parameter of the query type, spilled or not)
	isQueryType := func(t types.Type) bool {
		n := namedOf(t)
		return n != nil && n.Origin().Obj().Name() == "OffsetPaginatedQuery"
	}
	parts := []*ssa.Function{fn}
	seenPart := map[*ssa.Function]bool{fn: true}
	for i := 0; i < len(parts) && i < 12; i++ {
		allCalls(parts[i], func(ci ssa.CallInstruction) {
			g := staticCallee(ci)
			if g == nil || seenPart[g] || len(g.Blocks) == 0 || fnPkgPath(origin(g)) != fnPkgPath(origin(fn)) {
				return
			}
			for _, p := range g.Params {
				if isQueryType(p.Type()) {
					seenPart[g] = true
					parts = append(parts, g)
					return
				}
			}
		})
	}
	queryOf := map[ssa.Value]bool{} // values that ARE the query (parameter, or the local it is spilled into)
	for _, g := range parts {
		for _, p := range g.Params {
			if !isQueryType(p.Type()) {
				continue
			}
			queryOf[p] = true
			if p.Referrers() != nil {
				for _, r := range *p.Referrers() {
					if st, ok := r.(*ssa.Store); ok && st.Val == ssa.Value(p) {
						if a, ok := st.Addr.(*ssa.Alloc); ok {
							queryOf[a] = true
						}
					}
				}
			}
		}
	}
	var q *ssa.Alloc
	for v := range queryOf {
		if a, ok := v.(*ssa.Alloc); ok && a.Parent() == fn {
			q = a
		}
	}
	if q == nil {
		c.undecided(rule, "anchor:UsingOffset-query", fn.Pos(), "the query parameter is not spilled to a local")
		return
	}
	// `fetched int` parameters bound to len(rows) at every call site
	var isLenParamD func(p *ssa.Parameter, depth int) bool
	isLenParamD = func(p *ssa.Parameter, depth int) bool {
		if depth > 3 {
			return false
		}
		idx := paramIndex(p)
		n := 0
		for _, site := range c.CallersOf(p.Parent()) {
			if site.Parent() == nil || idx < 0 || idx >= len(site.Common().Args) {
				continue
			}
			arg := site.Common().Args[idx]
			// instantiation and promoted-method wrappers pass their own parameter on
			if pp, ok := arg.(*ssa.Parameter); ok {
				if len(c.CallersOf(pp.Parent())) == 0 && pp.Parent().Synthetic != "" {
					continue // a wrapper nobody calls
				}
				if !isLenParamD(pp, depth+1) {
					return false
				}
				n++
				continue
			}
			n++
			call, ok := arg.(*ssa.Call)
			if !ok {
				return false
			}
			if bi, ok := call.Call.Value.(*ssa.Builtin); !ok || bi.Name() != "len" {
				return false
			}
		}
		return n > 0
	}
	isLenParam := func(p *ssa.Parameter) bool { return isLenParamD(p, 0) }
	var ivalE func(v ssa.Value, depth int, env map[*ssa.Parameter]aff) (aff, bool)
	ival := func(v ssa.Value, depth int) (aff, bool) { return ivalE(v, depth, nil) }
	ivalE = func(v ssa.Value, depth int, env map[*ssa.Parameter]aff) (aff, bool) {
		ival := func(v ssa.Value, depth int) (aff, bool) { return ivalE(v, depth, env) }
		if depth > 10 {
			return nil, false
		}
		switch x := v.(type) {
		case *ssa.Parameter:
			if a, ok := env[x]; ok {
				return a, true
			}
			if isLenParam(x) {
				return affSym("len(rows)"), true
			}
		case *ssa.Call:
			if bi, ok := x.Call.Value.(*ssa.Builtin); ok && bi.Name() == "len" {
				return affSym("len(rows)"), true
			}
			// a helper of the package computing an offset from the two fields (`previousOffset(offset, pageSize)`)
			g := x.Call.StaticCallee()
			if g == nil || fnPkgPath(origin(g)) != fnPkgPath(origin(fn)) || len(g.Blocks) == 0 || depth > 4 {
				return nil, false
			}
			ne := map[*ssa.Parameter]aff{}
			for i, p := range g.Params {
				if i >= len(x.Call.Args) {
					return nil, false
				}
				a, ok := ival(x.Call.Args[i], depth+1)
				if !ok {
					return nil, false
				}
				ne[p] = a
			}
			var ret *ssa.Return
			n := 0
			for _, b := range g.Blocks {
				if r, ok := b.Instrs[len(b.Instrs)-1].(*ssa.Return); ok {
					ret, n = r, n+1
				}
			}
			if n != 1 || len(ret.Results) != 1 {
				return nil, false
			}
			return ivalE(ret.Results[0], depth+1, ne)
		case *ssa.Const:
			if n, ok := constInt(x); ok {
				if n == 0 {
					return affZero(), true
				}
				return aff{"1": n}, true
			}
		case *ssa.Convert:
			return ival(x.X, depth+1)
		case *ssa.ChangeType:
			return ival(x.X, depth+1)
		case *ssa.BinOp:
			a, ok1 := ival(x.X, depth+1)
			b, ok2 := ival(x.Y, depth+1)
			if ok1 && ok2 {
				switch x.Op {
				case token.ADD:
					return a.plus(b, 1), true
				case token.SUB:
					return a.plus(b, -1), true
				}
			}
		case *ssa.UnOp:
			if x.Op == token.MUL {
				if f, base := anyFieldRead(x); f != nil && queryOf[base] {
					return affSym(f.Name()), true
				}
			}
		case *ssa.Field:
			if f, base := anyFieldRead(x); f != nil && queryOf[base] {
				return affSym(f.Name()), true
			}
		case *ssa.Phi:
			// max(x, 0): phi [x, 0] where the 0 edge comes from the true side of `x < 0`
			if len(x.Edges) == 2 {
				for i := 0; i < 2; i++ {
					z, okz := ival(x.Edges[i], depth+1)
					o, oko := ival(x.Edges[1-i], depth+1)
					if !okz || !oko || !z.isZero() {
						continue
					}
					pred := x.Block().Preds[i]
					// the zero edge: pred is the `then` block of `if o < 0`
					for _, pp := range append([]*ssa.BasicBlock{pred}, pred.Preds...) {
						if iff, ok := pp.Instrs[len(pp.Instrs)-1].(*ssa.If); ok {
							if bo, ok := iff.Cond.(*ssa.BinOp); ok && bo.Op == token.LSS {
								l, okl := ival(bo.X, depth+1)
								r, okr := ival(bo.Y, depth+1)
								if okl && okr && l.equal(o) && r.isZero() {
									return affSym("max0(" + o.String() + ")"), true
								}
							}
						}
					}
				}
			}
		}
		return nil, false
	}
	// bits: OFFPOS (query.Offset > 0), MORE (len(rows) > PageSize)
	const (
		bOffPos = 1 << iota
		bMore
		bPageNZ // query.PageSize != 0 (also keeps the two arrivals at the block that merges `PageSize != 0 && …` apart)
	)
	must := map[ssa.Instruction]uint64{}
	var applyFact func(s uint64, x ssa.Value, val bool, depth int) uint64
	applyFact = func(s uint64, x ssa.Value, val bool, depth int) uint64 {
		if depth > 4 {
			return s
		}
		switch bo := x.(type) {
		case *ssa.UnOp:
			if bo.Op == token.NOT {
				return applyFact(s, bo.X, !val, depth+1)
			}
		case *ssa.Phi:
			// `a && b` in value form: phi [false, b]; true means b held (and a, tested on the way)
			if val {
				var nonConst []ssa.Value
				okShape := true
				for _, e := range bo.Edges {
					if cv, isC := constBool(e); isC {
						if cv {
							okShape = false
						}
						continue
					}
					nonConst = append(nonConst, e)
				}
				if okShape && len(nonConst) == 1 {
					return applyFact(s, nonConst[0], true, depth+1)
				}
			}
		case *ssa.BinOp:
			l, okl := ival(bo.X, 0)
			r, okr := ival(bo.Y, 0)
			if !okl || !okr {
				return s
			}
			off, ps, ln := affSym("Offset"), affSym("PageSize"), affSym("len(rows)")
			set := func(bit uint64, on bool) {
				if on {
					s |= bit
				} else {
					s &^= bit
				}
			}
			switch {
			case l.equal(off) && r.isZero():
				switch bo.Op {
				case token.GTR, token.NEQ:
					set(bOffPos, val)
				case token.EQL, token.LEQ:
					set(bOffPos, !val)
				}
			case l.equal(ln) && r.equal(ps):
				switch bo.Op {
				case token.GTR:
					set(bMore, val)
				case token.LEQ:
					set(bMore, !val)
				}
			case l.equal(ps) && r.equal(ln):
				switch bo.Op {
				case token.LSS:
					set(bMore, val)
				case token.GEQ:
					set(bMore, !val)
				}
			}
		}
		return s
	}
	pr := &PathRule{
		Edge: func(pc *PathCtx, s uint64, from *ssa.BasicBlock, si int) (uint64, bool) {
			for _, f := range pc.edgeFacts(from, si) {
				b, isB := constBool(f.Y)
				if !isB {
					// an equality fact `x == y`: query.Offset == 0
					l, okl := ival(f.X, 0)
					r, okr := ival(f.Y, 0)
					if okl && okr && l.equal(affSym("Offset")) && r.isZero() {
						if f.Eq {
							s &^= bOffPos
						} else {
							s |= bOffPos
						}
					}
					if okl && okr && l.equal(affSym("PageSize")) && r.isZero() {
						if f.Eq {
							s &^= bPageNZ
						} else {
							s |= bPageNZ
						}
					}
					continue
				}
				s = applyFact(s, f.X, b == f.Eq, 0)
			}
			return s, true
		},
		Step: func(pc *PathCtx, s uint64, ins ssa.Instruction) uint64 {
			if old, ok := must[ins]; ok {
				must[ins] = old & s
			} else {
				must[ins] = s
			}
			return s
		},
	}
	for _, g := range parts {
		c.RunPaths(g, 0, pr)
	}
	// a guard established by the caller before it calls a part holds inside that part
	guardOf := func(ins ssa.Instruction) uint64 {
		bits := must[ins]
		g := ins.Parent()
		if g == fn {
			return bits
		}
		all := ^uint64(0)
		n := 0
		for _, site := range c.CallersOf(g) {
			if si, ok := site.(ssa.Instruction); ok && site.Parent() != nil && seenPart[site.Parent()] {
				n++
				all &= must[si]
			}
		}
		if n > 0 {
			bits |= all
		}
		return bits
	}

	// the fetched window
	nWin := 0
	var allBlocksOfParts []*ssa.BasicBlock
	for _, g := range parts {
		allBlocksOfParts = append(allBlocksOfParts, g.Blocks...)
	}
	for _, b := range allBlocksOfParts {
		for _, ins := range b.Instrs {
			call, ok := ins.(*ssa.Call)
			if !ok || len(call.Call.Args) < 2 {
				continue
			}
			name := calleeFullName(call)
			switch {
			case strings.HasSuffix(name, "bun.SelectQuery).Offset"):
				nWin++
				a, ok := ival(call.Call.Args[1], 0)
				c.check(ok && a.equal(affSym("Offset")), rule, "UsingOffset:window-starts-at-offset", call.Pos(), "Offset(query.Offset)", "the rows are not fetched from query.Offset on")
			case strings.HasSuffix(name, "bun.SelectQuery).Limit"):
				nWin++
				a, ok := ival(call.Call.Args[1], 0)
				c.check(ok && a.equal(affSym("PageSize").plus(aff{"1": 1}, 1)), rule, "UsingOffset:window-is-one-page-plus-one", call.Pos(), "Limit(query.PageSize + 1)", "the rows fetched are not one page plus the one row that tells whether a next page exists")
			}
		}
	}
	if nWin < 2 {
		c.undecided(rule, "floor:UsingOffset-window", fn.Pos(), "Offset/Limit calls not found")
	}
	qType := q.Type().(*types.Pointer).Elem()
	nCopies := 0
	for _, b := range allBlocksOfParts {
		for _, ins := range b.Instrs {
			cp, ok := ins.(*ssa.Alloc)
			if !ok || !types.Identical(cp.Type().(*types.Pointer).Elem(), qType) {
				continue
			}
			// a helper that takes the query BY VALUE and moves the offset of its own copy (`func nextOffsetQuery(query Q, …) *Q
			// { …; query.Offset = …; return &query }`): the parameter cell is the cursor
			byValueCopy := queryOf[cp] && cp.Parent() != fn
			if queryOf[cp] && !byValueCopy {
				continue
			}
			var offStore *ssa.Store
			copied := false
			for _, r := range *cp.Referrers() {
				switch u := r.(type) {
				case *ssa.Store:
					if l, ok := u.Val.(*ssa.UnOp); ok && u.Addr == ssa.Value(cp) && l.Op == token.MUL && queryOf[l.X] {
						copied = true
					}
					if u.Addr == ssa.Value(cp) && queryOf[u.Val] {
						copied = true
					}
				case *ssa.FieldAddr:
					if fieldOfAddr(u).Name() == "Offset" {
						for _, rr := range *u.Referrers() {
							if st, ok := rr.(*ssa.Store); ok && st.Addr == ssa.Value(u) {
								offStore = st
							}
						}
					}
				}
			}
			if byValueCopy {
				copied = offStore != nil
			}
			if !copied {
				continue
			}
			nCopies++
			key := fmt.Sprintf("UsingOffset:cursor#%d:moves-by-one-page", nCopies)
			if offStore == nil {
				c.bad(rule, key, cp.Pos(), "a cursor is a copy of the query with the same offset: it denotes the page being served")
				continue
			}
			a, ok := ival(offStore.Val, 0)
			if !ok {
				c.undecided(rule, key, offStore.Pos(), "the offset of this cursor is not an affine expression of query.Offset and query.PageSize")
				continue
			}
			next := affSym("Offset").plus(affSym("PageSize"), 1)
			prev := affSym("max0(" + affSym("Offset").plus(affSym("PageSize"), -1).String() + ")")
			bits := guardOf(offStore)
			switch {
			case a.equal(next):
				c.check(bits&bMore != 0, rule, key, offStore.Pos(), "next: Offset + PageSize, under len(rows) > PageSize", "the next cursor is built on a path that has not established that a row beyond the page was fetched: the last page announces a next one (or none is announced when there is one)")
			case a.equal(prev):
				c.check(bits&bOffPos != 0, rule, key, offStore.Pos(), "previous: max(Offset − PageSize, 0), under Offset > 0", "the previous cursor is built on a path that has not established Offset > 0")
			default:
				c.bad(rule, key, offStore.Pos(), fmt.Sprintf("a cursor moves the offset to `%s`: neither Offset + PageSize nor max(Offset − PageSize, 0), so following it skips or repeats rows", a))
			}
		}
	}
	if nCopies < 2 {
		c.undecided(rule, "floor:UsingOffset-cursors", fn.Pos(), fmt.Sprintf("only %d cursors built from the query found", nCopies))
	}
}
