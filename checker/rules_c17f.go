package main

// R17f — offset pagination (bunpaginate.UsingOffset): the cursors are the query moved by exactly one page.
//   fetched window   Offset(query.Offset) and Limit(query.PageSize + 1)
//   next             Offset' ≡ Offset + PageSize, built only under len(rows) > PageSize
//   previous         Offset' ≡ max(Offset − PageSize, 0), built only under Offset > 0
// Integer expressions are normalised to affine forms over the two fields (conversions are transparent, a
// two-way phi of x and 0 is max(x, 0) when it merges the `x < 0` test).

import (
	"fmt"
	"go/token"
	"go/types"
	"sort"
	"strings"

	"golang.org/x/tools/go/ssa"
)

func ruleR17f(c *Ctx) {
	const rule = "R17f"
	var cands []*ssa.Function
	for fn := range c.AllFns {
		if origName(fn) != "UsingOffset" || !strings.HasSuffix(fnPkgPath(origin(fn)), "/bun/bunpaginate") || len(fn.Blocks) == 0 || fn.Origin() == nil {
			continue
		}
		ground := true
		for _, ta := range fn.TypeArgs() {
			if mentionsTypeParam(ta, 0) {
				ground = false
			}
		}
		if ground {
			cands = append(cands, fn)
		}
	}
	sort.Slice(cands, func(i, j int) bool { return cands[i].String() < cands[j].String() })
	if len(cands) == 0 {
		c.undecided(rule, "anchor:bunpaginate.UsingOffset", token.NoPos, "no instantiated body of UsingOffset found")
		return
	}
	fn := cands[0]
	if len(fn.Params) < 3 {
		c.undecided(rule, "anchor:UsingOffset-signature", fn.Pos(), "unexpected signature")
		return
	}
	var q *ssa.Alloc
	for _, r := range *fn.Params[2].Referrers() {
		if st, ok := r.(*ssa.Store); ok && st.Val == ssa.Value(fn.Params[2]) {
			q, _ = st.Addr.(*ssa.Alloc)
		}
	}
	if q == nil {
		c.undecided(rule, "anchor:UsingOffset-query", fn.Pos(), "the query parameter is not spilled to a local")
		return
	}
	var ivalE func(v ssa.Value, depth int, env map[*ssa.Parameter]aff) (aff, bool)
	ival := func(v ssa.Value, depth int) (aff, bool) { return ivalE(v, depth, nil) }
	ivalE = func(v ssa.Value, depth int, env map[*ssa.Parameter]aff) (aff, bool) {
		ival := func(v ssa.Value, depth int) (aff, bool) { return ivalE(v, depth, env) }
		if depth > 10 {
			return nil, false
		}
		switch x := v.(type) {
		case *ssa.Parameter:
			if a, ok := env[x]; ok {
				return a, true
			}
		case *ssa.Call:
			// a helper of the package computing an offset from the two fields (`previousOffset(offset, pageSize)`)
			g := x.Call.StaticCallee()
			if g == nil || fnPkgPath(origin(g)) != fnPkgPath(origin(fn)) || len(g.Blocks) == 0 || depth > 4 {
				return nil, false
			}
			ne := map[*ssa.Parameter]aff{}
			for i, p := range g.Params {
				if i >= len(x.Call.Args) {
					return nil, false
				}
				a, ok := ival(x.Call.Args[i], depth+1)
				if !ok {
					return nil, false
				}
				ne[p] = a
			}
			var ret *ssa.Return
			n := 0
			for _, b := range g.Blocks {
				if r, ok := b.Instrs[len(b.Instrs)-1].(*ssa.Return); ok {
					ret, n = r, n+1
				}
			}
			if n != 1 || len(ret.Results) != 1 {
				return nil, false
			}
			return ivalE(ret.Results[0], depth+1, ne)
		case *ssa.Const:
			if n, ok := constInt(x); ok {
				if n == 0 {
					return affZero(), true
				}
				return aff{"1": n}, true
			}
		case *ssa.Convert:
			return ival(x.X, depth+1)
		case *ssa.ChangeType:
			return ival(x.X, depth+1)
		case *ssa.BinOp:
			a, ok1 := ival(x.X, depth+1)
			b, ok2 := ival(x.Y, depth+1)
			if ok1 && ok2 {
				switch x.Op {
				case token.ADD:
					return a.plus(b, 1), true
				case token.SUB:
					return a.plus(b, -1), true
				}
			}
		case *ssa.UnOp:
			if x.Op == token.MUL {
				if f, base := anyFieldRead(x); f != nil && base == ssa.Value(q) {
					return affSym(f.Name()), true
				}
			}
		case *ssa.Phi:
			// max(x, 0): phi [x, 0] where the 0 edge comes from the true side of `x < 0`
			if len(x.Edges) == 2 {
				for i := 0; i < 2; i++ {
					z, okz := ival(x.Edges[i], depth+1)
					o, oko := ival(x.Edges[1-i], depth+1)
					if !okz || !oko || !z.isZero() {
						continue
					}
					pred := x.Block().Preds[i]
					// the zero edge: pred is the `then` block of `if o < 0`
					for _, pp := range append([]*ssa.BasicBlock{pred}, pred.Preds...) {
						if iff, ok := pp.Instrs[len(pp.Instrs)-1].(*ssa.If); ok {
							if bo, ok := iff.Cond.(*ssa.BinOp); ok && bo.Op == token.LSS {
								l, okl := ival(bo.X, depth+1)
								r, okr := ival(bo.Y, depth+1)
								if okl && okr && l.equal(o) && r.isZero() {
									return affSym("max0(" + o.String() + ")"), true
								}
							}
						}
					}
				}
			}
		}
		return nil, false
	}
	// bits: OFFPOS (query.Offset > 0), MORE (len(rows) > PageSize)
	const (
		bOffPos = 1 << iota
		bMore
	)
	must := map[ssa.Instruction]uint64{}
	pr := &PathRule{
		Edge: func(pc *PathCtx, s uint64, from *ssa.BasicBlock, si int) (uint64, bool) {
			for _, f := range pc.edgeFacts(from, si) {
				b, isB := constBool(f.Y)
				bo, isBo := f.X.(*ssa.BinOp)
				if !isB || !isBo || bo.Op != token.GTR {
					continue
				}
				val := b == f.Eq
				l, okl := ival(bo.X, 0)
				r, okr := ival(bo.Y, 0)
				if okl && okr && l.equal(affSym("Offset")) && r.isZero() {
					if val {
						s |= bOffPos
					} else {
						s &^= bOffPos
					}
				}
				if call, ok := bo.X.(*ssa.Call); ok && okr && r.equal(affSym("PageSize")) {
					if bi, ok := call.Call.Value.(*ssa.Builtin); ok && bi.Name() == "len" {
						if val {
							s |= bMore
						} else {
							s &^= bMore
						}
					}
				}
			}
			return s, true
		},
		Step: func(pc *PathCtx, s uint64, ins ssa.Instruction) uint64 {
			if old, ok := must[ins]; ok {
				must[ins] = old & s
			} else {
				must[ins] = s
			}
			return s
		},
	}
	c.RunPaths(fn, 0, pr)

	// the fetched window
	nWin := 0
	for _, b := range fn.Blocks {
		for _, ins := range b.Instrs {
			call, ok := ins.(*ssa.Call)
			if !ok || len(call.Call.Args) < 2 {
				continue
			}
			name := calleeFullName(call)
			switch {
			case strings.HasSuffix(name, "bun.SelectQuery).Offset"):
				nWin++
				a, ok := ival(call.Call.Args[1], 0)
				c.check(ok && a.equal(affSym("Offset")), rule, "UsingOffset:window-starts-at-offset", call.Pos(), "Offset(query.Offset)", "the rows are not fetched from query.Offset on")
			case strings.HasSuffix(name, "bun.SelectQuery).Limit"):
				nWin++
				a, ok := ival(call.Call.Args[1], 0)
				c.check(ok && a.equal(affSym("PageSize").plus(aff{"1": 1}, 1)), rule, "UsingOffset:window-is-one-page-plus-one", call.Pos(), "Limit(query.PageSize + 1)", "the rows fetched are not one page plus the one row that tells whether a next page exists")
			}
		}
	}
	if nWin < 2 {
		c.undecided(rule, "floor:UsingOffset-window", fn.Pos(), "Offset/Limit calls not found")
	}
	qType := q.Type().(*types.Pointer).Elem()
	nCopies := 0
	for _, b := range fn.Blocks {
		for _, ins := range b.Instrs {
			cp, ok := ins.(*ssa.Alloc)
			if !ok || cp == q || !types.Identical(cp.Type().(*types.Pointer).Elem(), qType) {
				continue
			}
			var offStore *ssa.Store
			copied := false
			for _, r := range *cp.Referrers() {
				switch u := r.(type) {
				case *ssa.Store:
					if l, ok := u.Val.(*ssa.UnOp); ok && u.Addr == ssa.Value(cp) && l.Op == token.MUL && l.X == ssa.Value(q) {
						copied = true
					}
				case *ssa.FieldAddr:
					if fieldOfAddr(u).Name() == "Offset" {
						for _, rr := range *u.Referrers() {
							if st, ok := rr.(*ssa.Store); ok && st.Addr == ssa.Value(u) {
								offStore = st
							}
						}
					}
				}
			}
			if !copied {
				continue
			}
			nCopies++
			key := fmt.Sprintf("UsingOffset:cursor#%d:moves-by-one-page", nCopies)
			if offStore == nil {
				c.bad(rule, key, cp.Pos(), "a cursor is a copy of the query with the same offset: it denotes the page being served")
				continue
			}
			a, ok := ival(offStore.Val, 0)
			if !ok {
				c.undecided(rule, key, offStore.Pos(), "the offset of this cursor is not an affine expression of query.Offset and query.PageSize")
				continue
			}
			next := affSym("Offset").plus(affSym("PageSize"), 1)
			prev := affSym("max0(" + affSym("Offset").plus(affSym("PageSize"), -1).String() + ")")
			bits := must[offStore]
			switch {
			case a.equal(next):
				c.check(bits&bMore != 0, rule, key, offStore.Pos(), "next: Offset + PageSize, under len(rows) > PageSize", "the next cursor is built on a path that has not established that a row beyond the page was fetched: the last page announces a next one (or none is announced when there is one)")
			case a.equal(prev):
				c.check(bits&bOffPos != 0, rule, key, offStore.Pos(), "previous: max(Offset − PageSize, 0), under Offset > 0", "the previous cursor is built on a path that has not established Offset > 0")
			default:
				c.bad(rule, key, offStore.Pos(), fmt.Sprintf("a cursor moves the offset to `%s`: neither Offset + PageSize nor max(Offset − PageSize, 0), so following it skips or repeats rows", a))
			}
		}
	}
	if nCopies < 2 {
		c.undecided(rule, "floor:UsingOffset-cursors", fn.Pos(), fmt.Sprintf("only %d cursors built from the query found", nCopies))
	}
}
