package main

// Behaviour-preserving variants: every check must stay silent on them (status silent-ok).
func init() {
	const cmdr = "internal/engine/command/commander.go"
	const ctxf = "internal/engine/command/context.go"
	const lock = "internal/engine/command/lock.go"
	const v2r = "internal/api/v2/routes.go"
	// wait moved into a helper
	waitHelper := Mutant{Name: "benign-wait-helper", File: ctxf,
		Old: "\t<-done\n\tlogger := logging.FromContext(ctx)", New: "\twaitPersisted(done)\n\tlogger := logging.FromContext(ctx)",
		Edits: []Edit{
			{File: ctxf, Old: "func newExecutionContext(", New: "// waitPersisted blocks until the batcher has persisted the log\nfunc waitPersisted(done chan struct{}) {\n\t<-done\n}\n\nfunc newExecutionContext("},
			{File: cmdr, Old: "\t\t<-done\n\n\t\treturn chainedLog, done, nil", New: "\t\twaitPersisted(done)\n\n\t\treturn chainedLog, done, nil"},
		}, Expect: "none", Benign: true}
	// run split into a key-handling wrapper and the execution, with the wait before the release
	runSplit := Mutant{Name: "benign-run-split", File: ctxf,
		Old: "\tchainedLog, done, err := executor(e)\n\tif err != nil {\n\t\treturn nil, err\n\t}\n\t<-done\n",
		New: "\treturn e.executeAndWait(ctx, executor)\n}\n\nfunc (e *executionContext) executeAndWait(ctx context.Context, executor func(e *executionContext) (*ledger.ChainedLog, chan struct{}, error)) (*ledger.ChainedLog, error) {\n\tchainedLog, done, err := executor(e)\n\tif err != nil {\n\t\treturn nil, err\n\t}\n\t<-done\n",
		Expect: "none", Benign: true}
	// monitor calls factored into one guarded helper
	publishHelper := Mutant{Name: "benign-early-return-on-dry-run", File: cmdr,
		Old: "\tif !parameters.DryRun {\n\t\tcommander.monitor.SavedMetadata(ctx, targetType, fmt.Sprint(targetID), m)\n\t}\n\treturn nil",
		New: "\tif parameters.DryRun {\n\t\treturn nil\n\t}\n\tcommander.monitor.SavedMetadata(ctx, targetType, fmt.Sprint(targetID), m)\n\treturn nil",
		Expect: "none", Benign: true}
	// explicit unlock instead of defer in the lock manager's release
	explicitUnlock := Mutant{Name: "benign-explicit-unlock", File: lock,
		Old: "\t\tdefaultLocker.mu.Lock()\n\t\tdefer defaultLocker.mu.Unlock()\n\n\t\tintent.unlock(logging.ContextWithLogger(ctx, logger), defaultLocker)\n\n\t\trecheck()\n",
		New: "\t\tdefaultLocker.mu.Lock()\n\t\tintent.unlock(logging.ContextWithLogger(ctx, logger), defaultLocker)\n\t\trecheck()\n\t\tdefaultLocker.mu.Unlock()\n",
		Expect: "none", Benign: true}
	// the appendLog critical section with explicit unlock and a local for the new head
	explicitRegion := Mutant{Name: "benign-appendlog-explicit-unlock", File: cmdr,
		Old: "\tcommander.mu.Lock()\n\tdefer commander.mu.Unlock()\n\n\tnextTXID := big.NewInt(0).Add(commander.lastTXID, big.NewInt(1))\n\tchainedLog := logBuilder(nextTXID).ChainLog(commander.lastLog)\n\tif allocateTXID {\n\t\tcommander.lastTXID = nextTXID\n\t}\n\tcommander.lastLog = chainedLog\n\tcommander.Append(chainedLog, callback)\n\n\treturn chainedLog",
		New: "\tcommander.mu.Lock()\n\tnextTXID := big.NewInt(0).Add(commander.lastTXID, big.NewInt(1))\n\tchainedLog := logBuilder(nextTXID).ChainLog(commander.lastLog)\n\tcommander.lastLog = chainedLog\n\tif allocateTXID {\n\t\tcommander.lastTXID = nextTXID\n\t}\n\tcommander.Append(chainedLog, callback)\n\tcommander.mu.Unlock()\n\n\treturn chainedLog",
		Expect: "none", Benign: true}
	// a new read-only route and a reordering of registrations
	newGetRoute := Mutant{Name: "benign-new-get-route", File: v2r,
		Old: "\t\t\t\trouter.Get(\"/stats\", getStats)\n", New: "\t\t\t\trouter.Get(\"/stats\", getStats)\n\t\t\t\trouter.Get(\"/statistics\", getStats)\n",
		Expect: "none", Benign: true}
	// reference check reordered: take, defer release, lookup — with err variable reuse
	refReuse := Mutant{Name: "benign-reference-err-reuse", File: cmdr,
		Old: "\t\t\t_, err := commander.store.GetTransactionByReference(ctx, script.Reference)\n\t\t\tif err == nil {\n\t\t\t\treturn nil, nil, NewErrConflict()\n\t\t\t}\n\t\t\tif err != nil && !storageerrors.IsNotFoundError(err) {\n\t\t\t\treturn nil, nil, err\n\t\t\t}",
		New: "\t\t\tswitch _, err := commander.store.GetTransactionByReference(ctx, script.Reference); {\n\t\t\tcase err == nil:\n\t\t\t\treturn nil, nil, NewErrConflict()\n\t\t\tcase !storageerrors.IsNotFoundError(err):\n\t\t\t\treturn nil, nil, err\n\t\t\t}",
		Expect: "none", Benign: true}
	for _, p := range []string{"C02", "C05", "C06", "C07", "C10", "C11", "C14", "C15", "C16", "C19"} {
		for _, m := range []Mutant{waitHelper, runSplit, publishHelper, explicitUnlock, explicitRegion, newGetRoute, refReuse} {
			m.Property = p
			addMutants(m)
		}
	}
}

func init() {
	const cmdr = "internal/engine/command/commander.go"
	const ref = "internal/engine/command/reference.go"
	helper := Edit{File: ref, Old: "func NewReferencer() *Referencer {", New: "// reserve takes the reference and returns the function giving it back\nfunc (r *Referencer) reserve(ref Reference, key any) (func(), error) {\n\tif err := r.take(ref, key); err != nil {\n\t\treturn nil, err\n\t}\n\treturn func() {\n\t\tr.release(ref, key)\n\t}, nil\n}\n\nfunc NewReferencer() *Referencer {"}
	for _, p := range []string{"C10", "C11", "C07"} {
		addMutants(
			Mutant{Property: p, Name: "benign-revert-guard-through-helper", File: cmdr,
				Old:    "\tif err := commander.referencer.take(referenceReverts, id); err != nil {\n\t\treturn nil, NewErrRevertTransactionOccurring()\n\t}\n\tdefer commander.referencer.release(referenceReverts, id)\n",
				New:    "\trelease, err := commander.referencer.reserve(referenceReverts, id)\n\tif err != nil {\n\t\treturn nil, NewErrRevertTransactionOccurring()\n\t}\n\tdefer release()\n",
				Edits:  []Edit{helper},
				Expect: "none", Benign: true},
			Mutant{Property: p, Name: "revert-guard-helper-releases-for-the-loser", File: cmdr,
				Old:    "\tif err := commander.referencer.take(referenceReverts, id); err != nil {\n\t\treturn nil, NewErrRevertTransactionOccurring()\n\t}\n\tdefer commander.referencer.release(referenceReverts, id)\n",
				New:    "\trelease, err := commander.referencer.reserve(referenceReverts, id)\n\tdefer release()\n\tif err != nil {\n\t\treturn nil, NewErrRevertTransactionOccurring()\n\t}\n",
				Edits:  []Edit{{File: ref, Old: "func NewReferencer() *Referencer {", New: "func (r *Referencer) reserve(ref Reference, key any) (func(), error) {\n\trelease := func() {\n\t\tr.release(ref, key)\n\t}\n\treturn release, r.take(ref, key)\n}\n\nfunc NewReferencer() *Referencer {"}},
				Expect: map[string]string{"C10": "R10a:", "C11": "none", "C07": "none"}[p], Benign: p != "C10"},
		)
	}
}
