package main

// cmdmodel.go — slot fillers shared by the rules about the write path (package
// internal/engine/command): fields, interface methods, "appender" functions, executors.

import (
	"go/token"
	"go/types"

	"golang.org/x/tools/go/ssa"
)

const (
	pkgCommand  = modPath + "/internal/engine/command"
	pkgBatching = modPath + "/internal/engine/utils/batching"
	pkgJob      = modPath + "/internal/engine/utils/job"
	pkgVM       = modPath + "/internal/machine/vm"
	pkgBus      = modPath + "/internal/bus"
	pkgEngine   = modPath + "/internal/engine"
)

type cmdModel struct {
	ok bool

	fLastLog, fLastTXID, fMu *types.Var
	fDryRun, fIK             *types.Var
	fReverted                *types.Var
	fLogIK                   *types.Var

	lockMethod     *types.Func // command.Locker.Lock
	batcherAppend  *types.Func // (*batching.Batcher[T]).Append
	insertLogs     *types.Func // command.Store.InsertLogs
	getTx          *types.Func
	getTxByRef     *types.Func
	readLogIK      *types.Func
	getLastLog     *types.Func
	getLastTx      *types.Func
	getBalance     *types.Func // vm.Store.GetBalance
	monitorMethods map[*types.Func]bool
	take, release  *ssa.Function
	run            *ssa.Function
	chainLog       *types.Func // (*ledger.Log).ChainLog
	withIK         *types.Func

	fns       []*ssa.Function           // all functions of package command (incl. literals)
	appenders map[*ssa.Function]bool    // functions that reach Batcher.Append
	persisters map[*ssa.Function]bool   // functions that reach (*executionContext).run (or are it)
	reachMemo map[*ssa.Function]int
	persMemo  map[*ssa.Function]int
	balMemo   map[*ssa.Function]int
	waitMemo  map[*ssa.Function]map[int]bool
}

func (c *Ctx) cmdModel(rule string) *cmdModel {
	if c.cmd != nil {
		return c.cmd
	}
	m := &cmdModel{monitorMethods: map[*types.Func]bool{}, appenders: map[*ssa.Function]bool{}, persisters: map[*ssa.Function]bool{},
		reachMemo: map[*ssa.Function]int{}, persMemo: map[*ssa.Function]int{}}
	c.cmd = m
	m.ok = true
	need := func(v any, what string) {
		isNil := v == nil
		switch x := v.(type) {
		case *types.Var:
			isNil = x == nil
		case *types.Func:
			isNil = x == nil
		case *ssa.Function:
			isNil = x == nil
		}
		if isNil {
			m.ok = false
			c.undecided(rule, "anchor:"+what, token.NoPos, "anchor not found in the current tree: "+what)
		}
	}
	m.fLastLog = c.Field(pkgCommand, "Commander", "lastLog")
	need(m.fLastLog, "command.Commander.lastLog")
	m.fLastTXID = c.Field(pkgCommand, "Commander", "lastTXID")
	need(m.fLastTXID, "command.Commander.lastTXID")
	m.fMu = c.Field(pkgCommand, "Commander", "mu")
	need(m.fMu, "command.Commander.mu")
	m.fDryRun = c.Field(pkgCommand, "Parameters", "DryRun")
	need(m.fDryRun, "command.Parameters.DryRun")
	m.fIK = c.Field(pkgCommand, "Parameters", "IdempotencyKey")
	need(m.fIK, "command.Parameters.IdempotencyKey")
	m.fReverted = c.Field(pkgLedger, "Transaction", "Reverted")
	need(m.fReverted, "ledger.Transaction.Reverted")
	m.fLogIK = c.Field(pkgLedger, "Log", "IdempotencyKey")
	need(m.fLogIK, "ledger.Log.IdempotencyKey")
	m.lockMethod = c.IfaceMethod(pkgCommand, "Locker", "Lock")
	need(m.lockMethod, "command.Locker.Lock")
	m.batcherAppend = c.methodObj(pkgBatching, "Batcher", "Append")
	need(m.batcherAppend, "batching.Batcher.Append")
	m.insertLogs = c.IfaceMethod(pkgCommand, "Store", "InsertLogs")
	need(m.insertLogs, "command.Store.InsertLogs")
	m.getTx = c.IfaceMethod(pkgCommand, "Store", "GetTransaction")
	need(m.getTx, "command.Store.GetTransaction")
	m.getTxByRef = c.IfaceMethod(pkgCommand, "Store", "GetTransactionByReference")
	need(m.getTxByRef, "command.Store.GetTransactionByReference")
	m.readLogIK = c.IfaceMethod(pkgCommand, "Store", "ReadLogWithIdempotencyKey")
	need(m.readLogIK, "command.Store.ReadLogWithIdempotencyKey")
	m.getLastLog = c.IfaceMethod(pkgCommand, "Store", "GetLastLog")
	need(m.getLastLog, "command.Store.GetLastLog")
	m.getLastTx = c.IfaceMethod(pkgCommand, "Store", "GetLastTransaction")
	need(m.getLastTx, "command.Store.GetLastTransaction")
	m.getBalance = c.IfaceMethod(pkgVM, "Store", "GetBalance")
	need(m.getBalance, "vm.Store.GetBalance")
	if mon := c.Named(pkgBus, "Monitor"); mon != nil {
		if it, ok := mon.Underlying().(*types.Interface); ok {
			for i := 0; i < it.NumMethods(); i++ {
				m.monitorMethods[it.Method(i)] = true
			}
		}
	}
	if len(m.monitorMethods) == 0 {
		need(nil, "bus.Monitor methods")
	}
	m.take = c.Fn(pkgCommand, "Referencer.take")
	need(m.take, "command.Referencer.take")
	m.release = c.Fn(pkgCommand, "Referencer.release")
	need(m.release, "command.Referencer.release")
	m.run = c.Fn(pkgCommand, "executionContext.run")
	need(m.run, "command.executionContext.run")
	m.chainLog = c.methodObj(pkgLedger, "Log", "ChainLog")
	need(m.chainLog, "ledger.Log.ChainLog")
	m.withIK = c.methodObj(pkgLedger, "Log", "WithIdempotencyKey")
	need(m.withIK, "ledger.Log.WithIdempotencyKey")
	if !m.ok {
		return m
	}
	m.fns = c.FuncsIn(pkgCommand)
	isAppend := func(ci ssa.CallInstruction) bool { return isCallTo(ci, m.batcherAppend) }
	isRun := func(ci ssa.CallInstruction) bool { return callsFn(ci, m.run) }
	for _, fn := range m.fns {
		if c.reachesStatic(fn, isAppend, m.reachMemo, 0) {
			m.appenders[fn] = true
		}
		if fn == m.run || c.reachesStatic(fn, isRun, m.persMemo, 0) {
			m.persisters[fn] = true
		}
	}
	return m
}

// monitorCall: is this an invoke of a bus.Monitor method?
func (m *cmdModel) monitorCall(ci ssa.CallInstruction) *types.Func {
	if im := ifaceMethodOf(ci); im != nil {
		for mm := range m.monitorMethods {
			if mm == im || mm.Origin() == im.Origin() {
				return mm
			}
		}
	}
	return nil
}

// chanResultIdx returns the index of the done-channel result (`chan struct{}` or `chan error`) of a signature, or -1.
func chanResultIdx(sig *types.Signature) int {
	for i := 0; i < sig.Results().Len(); i++ {
		if isDoneChanType(sig.Results().At(i).Type()) {
			return i
		}
	}
	return -1
}

func errResultIdx(sig *types.Signature) int {
	for i := sig.Results().Len() - 1; i >= 0; i-- {
		if isErrorType(sig.Results().At(i).Type()) {
			return i
		}
	}
	return -1
}

func isErrorType(t types.Type) bool {
	n, ok := t.(*types.Named)
	return ok && n.Obj().Pkg() == nil && n.Obj().Name() == "error"
}

// appendCall: a call (static) to a function of package command that reaches Batcher.Append and
// returns a `chan struct{}`: the hand-off of a log whose persistence is signalled on that channel.
func (m *cmdModel) appendCall(c *Ctx, ci ssa.CallInstruction) (chanIdx, errIdx int, ok bool) {
	call, isCall := ci.(*ssa.Call)
	if !isCall {
		return -1, -1, false
	}
	for _, f := range c.CalleesOf(call) {
		if m.appenders[f] || (f.Origin() != nil && m.appenders[f.Origin()]) {
			if i := chanResultIdx(f.Signature); i >= 0 {
				return i, errResultIdx(f.Signature), true
			}
		}
	}
	return -1, -1, false
}

// refKindOf maps the constant `ref Reference` argument of take/release to its name.
func (c *Ctx) refKindName(v ssa.Value) string {
	n, ok := constInt(v)
	if !ok {
		return ""
	}
	p := c.Pkg(pkgCommand)
	if p == nil {
		return ""
	}
	for _, name := range []string{"referenceReverts", "referenceIks", "referenceTxReference"} {
		if k, ok := p.Types.Scope().Lookup(name).(*types.Const); ok {
			if kv, exact := constInt64(k); exact && kv == n {
				return name
			}
		}
	}
	return ""
}

func constInt64(k *types.Const) (int64, bool) {
	v := k.Val()
	if v == nil {
		return 0, false
	}
	s := v.ExactString()
	var n int64
	neg := false
	for i, ch := range s {
		if i == 0 && ch == '-' {
			neg = true
			continue
		}
		if ch < '0' || ch > '9' {
			return 0, false
		}
		n = n*10 + int64(ch-'0')
	}
	if neg {
		n = -n
	}
	return n, true
}

// resultCells maps result index -> the local cell the function spills that result into (functions
// with defers return loads of such cells).
func resultCells(fn *ssa.Function) map[int]*ssa.Alloc {
	out := map[int]*ssa.Alloc{}
	for _, b := range fn.Blocks {
		if len(b.Instrs) == 0 {
			continue
		}
		ret, ok := b.Instrs[len(b.Instrs)-1].(*ssa.Return)
		if !ok {
			continue
		}
		for i, r := range ret.Results {
			if u, ok := r.(*ssa.UnOp); ok && u.Op == token.MUL {
				if a, ok := u.X.(*ssa.Alloc); ok {
					out[i] = a
				}
			}
		}
	}
	return out
}

// errTracker tracks, per path, whether the error result of the function is currently nil.
// Usage: in Step call onStore; at Return call isNilAtReturn.
type errTracker struct {
	fn     *ssa.Function
	errIdx int
	cell   *ssa.Alloc
}

func newErrTracker(fn *ssa.Function) *errTracker {
	t := &errTracker{fn: fn, errIdx: errResultIdx(fn.Signature)}
	if t.errIdx >= 0 {
		t.cell = resultCells(fn)[t.errIdx]
	}
	return t
}

// onStore returns (changed, isNil) when ins stores into the error result cell.
func (t *errTracker) onStore(ins ssa.Instruction) (bool, bool) {
	st, ok := ins.(*ssa.Store)
	if !ok || t.cell == nil || st.Addr != t.cell {
		return false, false
	}
	return true, isNilConst(st.Val)
}

// directNil: for functions without a spilled cell, is the returned error the nil constant?
func (t *errTracker) directNil(ret *ssa.Return) (known bool, isNil bool) {
	if t.errIdx < 0 {
		return true, true
	}
	if t.cell != nil {
		return false, false
	}
	if t.errIdx < len(ret.Results) {
		return true, isNilConst(ret.Results[t.errIdx])
	}
	return false, false
}

// waitedDone returns the channel value that ins waits for: a receive `<-ch`, or a call of a repository function
// whose every returning path receives on the parameter the channel is passed as (a `waitPersisted(done)` helper).
func (m *cmdModel) waitedDone(c *Ctx, ins ssa.Instruction) ssa.Value {
	switch x := ins.(type) {
	case *ssa.UnOp:
		if x.Op == token.ARROW {
			return x.X
		}
	case *ssa.Call:
		f := staticCallee(x)
		if f == nil || len(f.Blocks) == 0 || !inRepo(fnPkgPath(f)) {
			return nil
		}
		for i, a := range x.Call.Args {
			if !isDoneChanType(a.Type()) || i >= len(f.Params) {
				continue
			}
			if m.receivesOnParam(c, f, i) {
				return a
			}
		}
	}
	return nil
}

func (m *cmdModel) receivesOnParam(c *Ctx, f *ssa.Function, idx int) bool {
	if m.waitMemo == nil {
		m.waitMemo = map[*ssa.Function]map[int]bool{}
	}
	if r, ok := m.waitMemo[f][idx]; ok {
		return r
	}
	if m.waitMemo[f] == nil {
		m.waitMemo[f] = map[int]bool{}
	}
	m.waitMemo[f][idx] = false
	p := f.Params[idx]
	ok, seen := true, false
	pr := &PathRule{
		Step: func(pc *PathCtx, s uint64, ins ssa.Instruction) uint64 {
			if u, isU := ins.(*ssa.UnOp); isU && u.Op == token.ARROW && u.X == ssa.Value(p) {
				return s | 1
			}
			return s
		},
		Exit: func(pc *PathCtx, s uint64, ins ssa.Instruction) {
			if _, isRet := ins.(*ssa.Return); isRet {
				seen = true
				if s&1 == 0 {
					ok = false
				}
			}
		},
	}
	c.RunPaths(f, 0, pr)
	m.waitMemo[f][idx] = ok && seen
	return ok && seen
}

// handoffChan: is v the done channel produced by a hand-off call? Returns that call.
func (m *cmdModel) handoffChan(c *Ctx, v ssa.Value) *ssa.Call {
	e, ok := v.(*ssa.Extract)
	if !ok {
		return nil
	}
	call, ok := e.Tuple.(*ssa.Call)
	if !ok {
		return nil
	}
	if ci, _, ok := m.appendCall(c, call); ok && ci == e.Index {
		return call
	}
	return nil
}
