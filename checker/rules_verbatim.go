package main

// Verbatim keys (R07d idempotency key, R11c transaction reference).
//
// The key a request is checked under (in-process reservation + store lookup) must be the key that is
// persisted with its log / transaction, or the next request with the same key passes both checks. Between the
// engine and the store the key is only ever *copied*: every store into a field of that name, in the core,
// engine and storage packages, has as value a parameter of the enclosing setter, a read of a field of the
// same name, a constant, or a phi/local of those — never the result of a computation (trim, truncate, lower
// case, hash). Call sites of the setters are held to the same rule. The API layer, where the key enters the
// system, is out of scope: whatever it computes is what both the check and the write see.

import (
	"fmt"
	"go/token"
	"strings"

	"golang.org/x/tools/go/ssa"
)

func verbatimScope(pk string) bool {
	if pk == modPath+"/internal" {
		return true
	}
	for _, p := range []string{modPath + "/internal/engine", modPath + "/internal/storage", modPath + "/internal/machine/vm", modPath + "/internal/bus"} {
		if pk == p || strings.HasPrefix(pk, p+"/") {
			return true
		}
	}
	return false
}

func ruleVerbatimField(c *Ctx, rule, fieldName string, floor int) {
	var verb func(v ssa.Value, fn *ssa.Function, depth int) (bool, string)
	verb = func(v ssa.Value, fn *ssa.Function, depth int) (bool, string) {
		if depth > 10 {
			return false, "provenance too deep"
		}
		v = stripStringConv(v)
		switch x := v.(type) {
		case *ssa.Const:
			return true, "constant"
		case *ssa.Parameter:
			// every call site inside the scope passes a verbatim value
			idx := paramIndex(x)
			for _, site := range c.CallersOf(fn) {
				caller := site.Parent()
				if caller == nil || !verbatimScope(fnPkgPath(origin(caller))) || strings.HasSuffix(c.Fset.Position(site.Pos()).Filename, "_test.go") {
					continue
				}
				args := site.Common().Args
				if idx < 0 || idx >= len(args) {
					continue
				}
				if ok, why := verb(args[idx], caller, depth+1); !ok {
					return false, "call site " + c.pos(site.Pos()) + " passes " + why
				}
			}
			return true, "parameter " + x.Name()
		case *ssa.Phi:
			for _, e := range x.Edges {
				if e == ssa.Value(x) {
					continue
				}
				if ok, why := verb(e, fn, depth+1); !ok {
					return false, why
				}
			}
			return true, "phi of verbatim values"
		case *ssa.Field:
			if fieldOfField(x).Name() == fieldName {
				return true, "copy of a field " + fieldName
			}
			return false, "field " + fieldOfField(x).Name()
		case *ssa.UnOp:
			if x.Op == token.MUL {
				if f, _ := anyFieldRead(x); f != nil {
					if f.Name() == fieldName {
						return true, "copy of a field " + fieldName
					}
					return false, "field " + f.Name()
				}
				if a, ok := x.X.(*ssa.Alloc); ok {
					n := 0
					for _, r := range *a.Referrers() {
						if st, ok := r.(*ssa.Store); ok && st.Addr == ssa.Value(a) {
							n++
							if ok, why := verb(st.Val, fn, depth+1); !ok {
								return false, why
							}
						}
					}
					if n > 0 {
						return true, "local holding verbatim values"
					}
				}
				if fv, ok := x.X.(*ssa.FreeVar); ok {
					return true, "captured variable " + fv.Name()
				}
			}
		case *ssa.FreeVar:
			return true, "captured variable " + x.Name()
		case *ssa.Call:
			return false, "the result of " + calleeFullName(x)
		case *ssa.Slice:
			return false, "a slice of the key"
		case *ssa.BinOp:
			return false, "a computed string"
		case *ssa.Extract:
			// a value read back from the database / a lookup is a copy
			if lk, ok := x.Tuple.(*ssa.Lookup); ok {
				_ = lk
				return true, "map element"
			}
			return false, "a result of " + x.Tuple.Name()
		}
		return false, fmt.Sprintf("%T", v)
	}
	n := 0
	for _, fn := range c.RepoFuncs() {
		if len(fn.Blocks) == 0 || !verbatimScope(fnPkgPath(origin(fn))) {
			continue
		}
		if strings.HasSuffix(c.Fset.Position(fn.Pos()).Filename, "_test.go") {
			continue
		}
		k := 0
		for _, b := range fn.Blocks {
			for _, ins := range b.Instrs {
				st, ok := ins.(*ssa.Store)
				if !ok {
					continue
				}
				fa, ok := st.Addr.(*ssa.FieldAddr)
				if !ok || fieldOfAddr(fa) == nil || fieldOfAddr(fa).Name() != fieldName || !isStringType(fieldOfAddr(fa).Type()) {
					continue
				}
				n++
				k++
				ok2, why := verb(st.Val, fn, 0)
				key := fmt.Sprintf("%s:%s-stored-verbatim#%d", fnName(fn), fieldName, k)
				c.check(ok2, rule, key, st.Pos(), why, fmt.Sprintf("%s stores %s into a field %s: the key that is persisted is no longer the key the request was checked under (reservation and store lookup), so a second request with the same key passes both checks and takes effect again", fnName(fn), why, fieldName))
			}
		}
	}
	c.NSites += n
	if n < floor {
		c.undecided(rule, "floor:stores-of-"+fieldName, token.NoPos, fmt.Sprintf("only %d stores into fields named %s found in the core, engine and storage packages (expected at least %d)", n, fieldName, floor))
	}
}
