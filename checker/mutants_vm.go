package main

func init() {
	const src = "internal/machine/script/compiler/source.go"
	const comp = "internal/machine/script/compiler/compiler.go"
	const prog = "internal/machine/script/compiler/program.go"
	const mach = "internal/machine/vm/machine.go"
	const mon = "internal/machine/monetary.go"
	const run = "internal/machine/vm/run.go"
	const ccomp = "internal/engine/command/compiler.go"
	const instr = "internal/machine/vm/program/instructions.go"
	addMutants(
		Mutant{Property: "C12", Name: "portion-divides-by-fraction-length", File: "internal/machine/portion.go",
			Old: "\t\tres.Mul(res, big.NewRat(1, 100))", New: "\t\tres.Mul(res, big.NewRat(1, 100))\n\t\tres.Quo(res, new(big.Rat).SetInt64(int64(len(fractional))))", Expect: "R12i:"},
		Mutant{Property: "C12", Name: "portion-divides-by-tested-value", File: "internal/machine/portion.go",
			Old: "\t\tres.Mul(res, big.NewRat(1, 100))", New: "\t\tres.Mul(res, big.NewRat(1, 100))\n\t\tif d := new(big.Rat).SetInt64(int64(len(fractional))); d.Sign() != 0 {\n\t\t\tres.Quo(res, d)\n\t\t\tres.Mul(res, d)\n\t\t}", Expect: "none", Benign: true},
		Mutant{Property: "C01", Name: "fallback-for-every-account", File: src,
			Old: "\t\tif p.isWorld(*accAddr) {\n\t\t\tf := FallbackAccount(*accAddr)\n\t\t\tfallback = &f\n\t\t}", New: "\t\t{\n\t\t\tf := FallbackAccount(*accAddr)\n\t\t\tfallback = &f\n\t\t}", Expect: "R01a:"},
		Mutant{Property: "C01", Name: "bounded-overdraft-gets-fallback", File: src,
			Old: "\t\t\t\tp.AppendInstruction(program.OP_TAKE_ALL)\n\t\t\tcase *parser.SrcAccountOverdraftUnboundedContext:", New: "\t\t\t\tp.AppendInstruction(program.OP_TAKE_ALL)\n\t\t\t\tf := FallbackAccount(*accAddr)\n\t\t\t\tfallback = &f\n\t\t\tcase *parser.SrcAccountOverdraftUnboundedContext:", Expect: "R01a:"},
		Mutant{Property: "C01", Name: "take-always-without-fallback", File: src,
			Old: "\tif fallback == nil {\n\t\tp.AppendInstruction(program.OP_TAKE)\n\t\terr := p.Bump(1)\n\t\tif err != nil {\n\t\t\treturn err\n\t\t}\n\t\tp.AppendInstruction(program.OP_REPAY)\n\t\treturn nil\n\t}", New: "\tif fallback == nil {\n\t\tp.AppendInstruction(program.OP_TAKE_ALWAYS)\n\t\treturn nil\n\t}", Expect: "R01a:"},
		Mutant{Property: "C01", Name: "add-in-place", File: mon,
			Old: "\treturn (*MonetaryInt)((&big.Int{}).Add((*big.Int)(a), (*big.Int)(b)))", New: "\treturn (*MonetaryInt)((*big.Int)(a).Add((*big.Int)(a), (*big.Int)(b)))", Expect: "R01c:"},
		Mutant{Property: "C01", Name: "neg-in-place", File: mon,
			Old: "\treturn (*MonetaryInt)((&big.Int{}).Neg((*big.Int)(a)))", New: "\treturn (*MonetaryInt)((*big.Int)(a).Neg((*big.Int)(a)))", Expect: "R01c:"},
		Mutant{Property: "C01", Name: "negative-cap-not-refused", File: mach,
			Old: "\t\tif mon.Amount.Ltz() {\n\t\t\treturn true, fmt.Errorf(\n\t\t\t\t\"cannot send a monetary with a negative amount: [%s %s]\",\n\t\t\t\tstring(mon.Asset), mon.Amount)\n\t\t}\n", New: "", Expect: "R01e:"},
		Mutant{Property: "C01", Name: "short-funding-is-generic-error", File: mach,
			Old: "\t\t\treturn true, machine.NewErrInsufficientFund(err.Error())", New: "\t\t\treturn true, machine.NewErrInvalidScript(err.Error())", Expect: "R01d:tick"},
		Mutant{Property: "C01", Name: "run-returns-partial-postings", File: run,
			Old: "\terr := m.Execute()\n\tif err != nil {\n\t\treturn nil, errors.Wrap(err, \"script execution failed\")\n\t}", New: "\terr := m.Execute()\n\tif err != nil {\n\t\treturn &Result{Postings: make([]ledger.Posting, len(m.Postings))}, errors.Wrap(err, \"script execution failed\")\n\t}", Expect: "R01d:vm.Run"},
		Mutant{Property: "C01", Name: "meta-handler-touches-balances", File: mach,
			Old: "\t\tm.AccountsMeta[a][string(k)] = v\n", New: "\t\tm.AccountsMeta[a][string(k)] = v\n\t\tdelete(m.Balances, a)\n", Expect: "R01b:"},
		Mutant{Property: "C01", Name: "stats-function-writes-balances", File: mach,
			Old: "func (m *Machine) getResource(addr machine.Address) (*machine.Value, bool) {", New: "func (m *Machine) ResetBalance(a machine.AccountAddress, asset machine.Asset) {\n\tm.Balances[a][asset] = machine.Zero\n}\n\nfunc (m *Machine) getResource(addr machine.Address) (*machine.Value, bool) {", Expect: "R01b:"},
	)
	addMutants(
		Mutant{Property: "C08", Name: "vm-sorts-program-sources", File: mach,
			Old: "\tfor _, machineAddress := range m.Program.Sources {", New: "\tsort.Sort(machine.Addresses(m.Program.Sources))\n\tfor _, machineAddress := range m.Program.Sources {",
			Edits: []Edit{{File: mach, Old: "import (\n\t\"context\"\n", New: "import (\n\t\"context\"\n\t\"sort\"\n"}}, Expect: "R08a:"},
		Mutant{Property: "C08", Name: "vm-patches-instructions", File: mach,
			Old: "\t\tm.Stack = append(m.Stack, *v)\n\t\tm.P += 2\n", New: "\t\tm.Stack = append(m.Stack, *v)\n\t\tm.Program.Instructions[m.P] = program.OP_APUSH\n\t\tm.P += 2\n", Expect: "R08a:"},
		Mutant{Property: "C08", Name: "resolve-writes-into-program-resources", File: mach,
			Old: "\t\tmonetary.Amount = machine.NewMonetaryIntFromBigInt(balance)\n\t\tm.Resources[resourceIndex] = monetary", New: "\t\tmonetary.Amount = machine.NewMonetaryIntFromBigInt(balance)\n\t\tm.Resources[resourceIndex] = monetary\n\t\tm.UnresolvedResources[resourceIndex] = program.Monetary{Amount: monetary.Amount}", Expect: "R08a:"},
		Mutant{Property: "C08", Name: "cache-key-from-prefix", File: ccomp,
			Old: "\t_, err := digest.Write([]byte(script))", New: "\t_, err := digest.Write([]byte(script[:len(script)/2]))", Expect: "R08b:"},
		Mutant{Property: "C08", Name: "cache-set-under-other-key", File: ccomp,
			Old: "\t_ = c.cache.Set(cacheKey, program)", New: "\t_ = c.cache.Set(script[:1], program)", Expect: "R08b:"},
		Mutant{Property: "C08", Name: "opcode-without-handler", File: instr,
			Old: "\tOP_SAVE\n)", New: "\tOP_SAVE\n\tOP_NOP\n)", Expect: "R08c:tick-handles:OP_NOP"},
		Mutant{Property: "C08", Name: "apush-skips-one-byte", File: mach,
			Old: "\t\tm.Stack = append(m.Stack, *v)\n\t\tm.P += 2\n", New: "\t\tm.Stack = append(m.Stack, *v)\n\t\tm.P += 1\n", Expect: "R08c:operand-width"},
		Mutant{Property: "C08", Name: "source-account-type-unchecked", File: src,
			Old: "\t\tif ty != machine.TypeAccount {\n\t\t\treturn nil, nil, nil, LogicError(c, errors.New(\"wrong type: expected account or allocation as destination\"))\n\t\t}\n", New: "\t\t_ = ty\n", Expect: "R08d:"},
		Mutant{Property: "C08", Name: "max-type-unchecked", File: src,
			Old: "\t\tty, _, compErr := p.VisitExpr(c.SourceMaxed().GetMax(), true)\n\t\tif compErr != nil {\n\t\t\treturn nil, nil, nil, compErr\n\t\t}\n\t\tif ty != machine.TypeMonetary {\n\t\t\treturn nil, nil, nil, LogicError(c, errors.New(\"wrong type: expected monetary as max\"))\n\t\t}", New: "\t\t_, _, compErr = p.VisitExpr(c.SourceMaxed().GetMax(), true)\n\t\tif compErr != nil {\n\t\t\treturn nil, nil, nil, compErr\n\t\t}", Expect: "R08d:"},
	)
	addMutants(
		Mutant{Property: "C12", Name: "save-unchecked-again", File: mach,
			Old: "\t\t\t\tif balance, tracked := accBalances[v]; !tracked || balance.Gt(machine.Zero) {\n\t\t\t\t\taccBalances[v] = machine.Zero\n\t\t\t\t}\n\t\t\t}", New: "\t\t\t}\n\t\t\tif balance := m.Balances[a][v]; balance == nil || balance.Gt(machine.Zero) {\n\t\t\t\tm.Balances[a][v] = machine.Zero\n\t\t\t}", Expect: "R12a:"},
		Mutant{Property: "C12", Name: "credit-unchecked", File: mach,
			Old: "\tif accBalance, ok := m.Balances[account]; ok {\n\t\tif _, ok := accBalance[funding.Asset]; ok {\n\t\t\tfor _, part := range funding.Parts {\n\t\t\t\tbalance := accBalance[funding.Asset]\n\t\t\t\taccBalance[funding.Asset] = balance.Add(part.Amount)\n\t\t\t}\n\t\t}\n\t}", New: "\tfor _, part := range funding.Parts {\n\t\tm.Balances[account][funding.Asset] = m.Balances[account][funding.Asset].Add(part.Amount)\n\t}", Expect: "R12a:"},
		Mutant{Property: "C12", Name: "registry-keyed-by-address", File: mach,
			Old: "\t\t\tm.UnresolvedResourceBalances[idx] = address", New: "\t\t\tm.UnresolvedResourceBalances[len(address)] = address", Expect: "R12b:"},
		Mutant{Property: "C12", Name: "delete-does-not-advance", File: mach,
			Old: "\tm.P += 1\n\n\tif int(m.P) >= len(m.Program.Instructions) {", New: "\tif op != program.OP_DELETE {\n\t\tm.P += 1\n\t}\n\n\tif int(m.P) >= len(m.Program.Instructions) {", Expect: "R12c:tick:every-unfinished-step-advances-P"},
		Mutant{Property: "C12", Name: "resolve-skips-unknown-resource", File: mach,
			Old: "\t\tdefault:\n\t\t\tpanic(fmt.Errorf(\"type %T not implemented\", res))\n\t\t}\n\t\tm.Resources = append(m.Resources, val)", New: "\t\tdefault:\n\t\t\tcontinue\n\t\t}\n\t\tm.Resources = append(m.Resources, val)", Expect: "R12c:ResolveResources"},
		Mutant{Property: "C12", Name: "compile-counter-in-package-var", File: comp,
			Old: "func Compile(input string) (*program2.Program, error) {\n\tartifacts := CompileFull(input)", New: "var compiled int\n\nfunc Compile(input string) (*program2.Program, error) {\n\tcompiled++\n\tartifacts := CompileFull(input)", Expect: "R12d:"},
		Mutant{Property: "C12", Name: "destination-type-unchecked", File: "internal/machine/script/compiler/destination.go",
			Old: "\t\tty, _, err := p.VisitExpr(c.Expression(), true)", New: "\t\t_, _, err := p.VisitExpr(c.Expression(), true)\n\t\tty := machine.Type(machine.TypeAccount)", Expect: "R12e:"},
	)
	addMutants(
		Mutant{Property: "C02", Name: "compiler-forgets-source-declaration", File: src,
			Old: "\tfor address := range neededAccounts {\n\t\tp.sources[address] = struct{}{}\n\t}\n", New: "", Expect: "R02b:compiler"},
		Mutant{Property: "C02", Name: "compiler-unbounded-account-not-needed", File: src,
			Old: "\t\tneededAccounts[*accAddr] = struct{}{}\n\t\temptiedAccounts[*accAddr] = struct{}{}\n", New: "\t\tif fallback == nil {\n\t\t\tneededAccounts[*accAddr] = struct{}{}\n\t\t}\n\t\temptiedAccounts[*accAddr] = struct{}{}\n", Expect: "R02b:compiler:VisitSource:debited-account-registered"},
	)
}
