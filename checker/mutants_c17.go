package main

func init() {
	const expr = "libs/query/expression.go"
	const utils = "internal/storage/ledgerstore/utils.go"
	const pag = "libs/bun/bunpaginate/pagination.go"
	addMutants(
		Mutant{Property: "C17", Name: "options-lose-decoder", File: utils,
			Old: "func (opts *PaginatedQueryOptions[T]) UnmarshalJSON(data []byte) error {", New: "func (opts *PaginatedQueryOptions[T]) unmarshalJSONDisabled(data []byte) error {", Expect: "R17a:"},
		Mutant{Property: "C17", Name: "decoder-forgets-filter", File: utils,
			Old: "\t\topts.QueryBuilder = qb\n", New: "\t\t_ = qb\n", Expect: "R17a:"},
		Mutant{Property: "C17", Name: "not-loses-encoder", File: expr,
			Old: "func (n not) MarshalJSON() ([]byte, error) {", New: "func (n not) marshalJSONDisabled() ([]byte, error) {", Expect: "R17a:"},
		Mutant{Property: "C17", Name: "not-operator-not-parsed", File: expr,
			Old: "\tcase \"$not\":\n", New: "\tcase \"$negate\":\n", Expect: "R17c:operator-accepted:$not"},
		Mutant{Property: "C17", Name: "keyvalue-encoding-drops-operator", File: expr,
			Old: "\t\tk.operator: map[string]any{\n\t\t\tk.key: k.value,\n\t\t},", New: "\t\t\"$match\": map[string]any{\n\t\t\tk.key: k.value,\n\t\t},", Expect: "R17c:keyValue.MarshalJSON:encodes-operator"},
		Mutant{Property: "C17", Name: "new-operator-not-parsed", File: expr,
			Old: "func Lte(key string, value any) keyValue {\n\treturn keyValue{\n\t\toperator: \"$lte\",", New: "func Lte(key string, value any) keyValue {\n\treturn keyValue{\n\t\toperator: \"$le\",", Expect: "R17c:operator-accepted:$le"},
		Mutant{Property: "C17", Name: "decoder-uses-other-base64", File: pag,
			Old: "\tres, err := base64.RawURLEncoding.DecodeString(v)", New: "\tres, err := base64.URLEncoding.DecodeString(v)", Expect: "R17b:"},
		Mutant{Property: "C17", Name: "cursor-field-not-encoded", File: pag,
			Old: "\tReverse      bool     `json:\"reverse\"`", New: "\tReverse      bool     `json:\"-\"`", Expect: "R17a:"},
		Mutant{Property: "C17", Name: "filter-field-unexported", File: utils,
			Old: "\tExpandEffectiveVolumes bool `json:\"effectiveVolumes\"`", New: "\tExpandEffectiveVolumes bool `json:\"effectiveVolumes\"`\n\tincludeDeleted         bool", Expect: "R17a:"},
	)
}

func init() {
	const expr = "libs/query/expression.go"
	guard := "\titems := set.items\n\tif items == nil {\n\t\titems = []Builder{}\n\t}\n"
	addMutants(
		Mutant{Property: "C17", Name: "empty-set-encoded-as-null", File: expr, Old: guard, New: "\titems := set.items\n", Expect: "R17d:set"},
		Mutant{Property: "C17", Name: "empty-set-null-accepted-by-decoder", File: expr, Old: guard, New: "\titems := set.items\n",
			Edits:  []Edit{{File: expr, Old: "\t\treturn set, nil\n\tdefault:\n\t\treturn set, fmt.Errorf(\"unexpected type %T\", value)", New: "\t\treturn set, nil\n\tcase nil:\n\t\treturn set, nil\n\tdefault:\n\t\treturn set, fmt.Errorf(\"unexpected type %T\", value)"}},
			Expect: "none", Benign: true},
		Mutant{Property: "C17", Name: "set-items-copied-into-fresh-slice", File: expr, Old: guard, New: "\titems := make([]Builder, 0, len(set.items))\n\titems = append(items, set.items...)\n", Expect: "none", Benign: true},
		Mutant{Property: "C17", Name: "not-encoded-through-pointer", File: expr, Old: "\t\t\"$not\": n.expression,\n", New: "\t\t\"$not\": []Builder{n.expression},\n", Expect: "R17d:not"},
	)
}

func init() {
	const col = "libs/bun/bunpaginate/pagination_column.go"
	addMutants(
		Mutant{Property: "C17", Name: "previous-cursor-positioned-on-the-extra-row", File: col, Old: "paginationIDs[len(paginationIDs)-2]", New: "paginationIDs[len(paginationIDs)-1]", Expect: "R17e:"},
		Mutant{Property: "C17", Name: "next-cursor-positioned-on-the-last-row-shown", File: col, Old: "\t\t\tcp.PaginationID = (*big.Int)(paginationIDs[len(paginationIDs)-1])\n\t\t\tnext = &cp", New: "\t\t\tcp.PaginationID = (*big.Int)(paginationIDs[len(paginationIDs)-2])\n\t\t\tnext = &cp", Expect: "R17e:"},
		Mutant{Property: "C17", Name: "reverse-bound-made-inclusive", File: col, Old: "fmt.Sprintf(\"%s < ?\", query.Column)", New: "fmt.Sprintf(\"%s <= ?\", query.Column)", Expect: "R17e:"},
		Mutant{Property: "C17", Name: "forward-bound-made-strict", File: col, Old: "fmt.Sprintf(\"%s <= ?\", query.Column)", New: "fmt.Sprintf(\"%s < ?\", query.Column)", Expect: "R17e:"},
		Mutant{Property: "C17", Name: "boundary-variable-for-the-next-cursor-only", File: col,
			Old:    "\tif hasMore {\n\t\tret = ret[:len(ret)-1]\n\t}\n",
			New:    "\tvar boundary *big.Int\n\tif hasMore {\n\t\tboundary = (*big.Int)(paginationIDs[len(paginationIDs)-1])\n\t\tret = ret[:len(ret)-1]\n\t}\n",
			Edits:  []Edit{{File: col, Old: "\t\t\tcp.PaginationID = (*big.Int)(paginationIDs[len(paginationIDs)-1])\n\t\t\tnext = &cp", New: "\t\t\tcp.PaginationID = boundary\n\t\t\tnext = &cp"}},
			Expect: "none", Benign: true},
	)
}

func init() {
	const off = "libs/bun/bunpaginate/pagination_offset.go"
	addMutants(
		Mutant{Property: "C17", Name: "offset-next-skips-the-extra-row", File: off, Old: "\t\tcp.Offset = query.Offset + query.PageSize\n", New: "\t\tcp.Offset = query.Offset + query.PageSize + 1\n", Expect: "R17f:"},
		Mutant{Property: "C17", Name: "offset-previous-not-clamped", File: off, Old: "\t\tif offset < 0 {\n\t\t\toffset = 0\n\t\t}\n", New: "", Expect: "R17f:"},
		Mutant{Property: "C17", Name: "offset-limit-without-lookahead", File: off, Old: "sb.Limit(int(query.PageSize) + 1)", New: "sb.Limit(int(query.PageSize))", Expect: "R17f:"},
		Mutant{Property: "C17", Name: "offset-next-when-page-is-full", File: off, Old: "len(ret) > int(query.PageSize)", New: "len(ret) >= int(query.PageSize)", Expect: "R17f:"},
	)
}
