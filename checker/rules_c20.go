package main

import (
	"fmt"
	"go/token"
	"go/types"
	"sort"
	"strings"

	"golang.org/x/tools/go/ssa"
)

const pkgQuery = libsPath + "/query"

func init() {
	register("C20", propMeta{
		Level: "other",
		Explanation: "Static taint, for every filter key, operator and value (all inputs at once). The path client text → SQL text is cut in three places, each decided separately: " +
			"R20a every function literal of package ledgerstore with the signature of query.ContextFn (all v1 and v2 filters funnel through Builder.Build → Context.BuildMatcher) is analysed with key, operator and value as taint sources: nothing tainted reaches its first result (the SQL fragment) unless sanitised — equality with a constant on every path to the use, lookup in a package-level map of constants, a successful match against a package-level regexp proved quote-safe by walking its syntax tree (anchored ^…$, no ' \" \\ and no wide/negated class), or a numeric/time type; bound arguments (second result) are not sinks. " +
			"R20b the combinators of libs/query (set.Build, not.Build, keyValue.Build) add only constant text around nested Build results: the only field they format is set.operator, whose every writer stores a constant or the tail of a parameter that all call sites have compared with constants. " +
			"R20c in package ledgerstore the format/expression argument of every bun.SelectQuery builder call (Where, Join, ColumnExpr, TableExpr, OrderExpr, …) derives only from constants, Builder.Build results (R20a/b), rendered sub-queries, numeric/time formatting, or string parameters whose every call site passes such a value. " +
			"R20f where ledgerstore builds a fragment with Sprintf and a constant format, text that comes from the client (a string parameter some caller binds to a non-constant, and what is split, indexed, ranged, converted or JSON-encoded from it) fills only verbs that stand between single quotes. R20e the text of a rendered query (SelectQuery.String()) is never used as a format that is given arguments — neither in a builder call nor in the (sql, args) pair of a filter — since bun would look for placeholders inside its literals. R20d a `?` argument is data only while bun quotes it: every conversion to the types bun appends verbatim or as an identifier (schema.Safe, Name, Ident, QueryWithArgs — bun.Safe, bun.Ident, bun.SafeQuery, UnsafeIdent) anywhere outside libs takes a string that is clean in the sense of R20c (expected count on today's tree: zero; a mutant keeps the rule exercised).",
		NotDecided:  "bun's own quoting of bound `?` arguments; the cursor's Column/Order fields (client-controlled, formatted into ORDER BY by bunpaginate — outside the statement, which is about list filters); ledger and bucket names flowing into DDL.",
		Trusted:     []string{"bun binds ? arguments as parameters / quoted literals", "regexp/syntax parses patterns as package regexp does"},
		Assumptions: []string{"free variables captured by the filter callbacks that carry text are treated as tainted too (conservative)"},
	}, runC20)
}

func isContextFnSig(c *Ctx, sig *types.Signature) bool {
	n := c.Named(pkgQuery, "ContextFn")
	if n == nil {
		return false
	}
	return types.Identical(sig, n.Underlying())
}

func runC20(c *Ctx) {
	tc := newTaintCfg(c)
	build := c.IfaceMethod(pkgQuery, "Builder", "Build")
	buildMatcher := c.IfaceMethod(pkgQuery, "Context", "BuildMatcher")
	if build == nil || buildMatcher == nil || c.Named(pkgQuery, "ContextFn") == nil {
		c.undecided("R20a", "anchor:query.Builder/Context/ContextFn", token.NoPos, "libs/query anchors not found")
		return
	}
	// named functions used as filter callbacks: `query.ContextFn(logsFilterContext)`
	convertedToContextFn := map[*ssa.Function]bool{}
	ctxFnNamed := c.Named(pkgQuery, "ContextFn")
	for _, fn := range c.RepoFuncs() {
		for _, b := range fn.Blocks {
			for _, ins := range b.Instrs {
				if ct, ok := ins.(*ssa.ChangeType); ok && namedOf(ct.Type()) == ctxFnNamed {
					if f, ok := ct.X.(*ssa.Function); ok {
						convertedToContextFn[f] = true
					}
				}
			}
		}
	}
	// ---- R20a
	nCb := 0
	for _, fn := range c.RepoFuncs() {
		if !isContextFnSig(c, fn.Signature) || len(fn.Blocks) == 0 || fn.Synthetic != "" {
			continue
		}
		if fn.Parent() == nil && !convertedToContextFn[fn] {
			continue // a named function is a filter callback only where it is converted to query.ContextFn
		}
		if strings.HasPrefix(fnPkgPath(fn), libsPath) {
			continue
		}
		nCb++
		c.seeFn(fn)
		names := []string{"key", "operator", "value"}
		for pi, p := range fn.Params {
			cfg := *tc
			cfg.extraSource = nil
			r := tc.analyse(fn, []ssa.Value{p})
			flagged := false
			for _, b := range fn.Blocks {
				ret, ok := b.Instrs[len(b.Instrs)-1].(*ssa.Return)
				if !ok || len(ret.Results) == 0 {
					continue
				}
				v := ret.Results[0]
				if r.tainted[v] && !(r.clean[ret] != nil && r.clean[ret][v]) {
					flagged = true
					c.add("R20a", fnName(fn)+":"+names[pi]+"-never-becomes-sql-text", ret.Pos(), Violated,
						"the filter "+names[pi]+" supplied by the client flows into the SQL fragment returned by this callback without a sanitiser: its text becomes part of the query structure",
						r.chain(v)...)
					break
				}
			}
			if !flagged {
				c.ok("R20a", fnName(fn)+":"+names[pi]+"-never-becomes-sql-text", fn.Pos(), "no unsanitised flow from the parameter to the returned SQL fragment")
			}
		}
		// text-carrying free variables
		for _, fv := range fn.FreeVars {
			elem := fv.Type()
			if pt, ok := elem.(*types.Pointer); ok {
				elem = pt.Elem()
			}
			if bt, ok := elem.Underlying().(*types.Basic); !ok || bt.Info()&types.IsString == 0 {
				continue
			}
			r := tc.analyse(fn, []ssa.Value{fv})
			bad := false
			for _, b := range fn.Blocks {
				if ret, ok := b.Instrs[len(b.Instrs)-1].(*ssa.Return); ok && len(ret.Results) > 0 && r.tainted[ret.Results[0]] {
					bad = true
				}
			}
			c.check(!bad, "R20a", fnName(fn)+":captured-"+fv.Name()+"-never-becomes-sql-text", fn.Pos(), "captured string does not reach the SQL fragment", "a captured string variable flows into the SQL fragment: cannot show it is not client text")
		}
	}
	c.Info["filter_callbacks"] = nCb
	if nCb < 4 {
		c.undecided("R20a", "floor:filter-callbacks", token.NoPos, fmt.Sprintf("expected the filter callbacks of accounts, transactions, balances and logs; found %d", nCb))
	}

	// ---- R20b: combinators
	ruleR20b(c, tc, build, buildMatcher)
	// ---- R20c: formats
	ruleR20c(c, tc, build)
	ruleR20f(c, "R20f")
}

func ruleR20b(c *Ctx, tc *taintCfg, build, buildMatcher *types.Func) {
	const rule = "R20b"
	opField := c.Field(pkgQuery, "set", "operator")
	if opField == nil {
		c.undecided(rule, "anchor:query.set.operator", token.NoPos, "field not found")
		return
	}
	// every implementation of Builder.Build in libs/query
	ri := &reachInfo{c: c, memo: map[*ssa.Function]map[string]string{}, impls: map[*types.Func][]*ssa.Function{}}
	impls := ri.implementations(build)
	n := 0
	for _, fn := range impls {
		if fnPkgPath(fn) != pkgQuery || fn.Synthetic != "" {
			continue
		}
		n++
		cfg := newTaintCfg(c)
		cfg.cleanCall = func(call *ssa.Call) bool {
			return (isCallTo(call, build) || isCallTo(call, buildMatcher)) && ifaceMethodOf(call) != nil
		}
		cfg.extraSource = func(v ssa.Value) bool {
			f, base := anyFieldRead(v)
			if f == nil {
				return false
			}
			// fields of the receiver (and of anything else): treated as client-controlled text, except set.operator (checked below)
			_ = base
			return !sameField(f, opField)
		}
		r := cfg.analyse(fn, nil)
		bad := false
		var chain []string
		for _, b := range fn.Blocks {
			if ret, ok := b.Instrs[len(b.Instrs)-1].(*ssa.Return); ok && len(ret.Results) > 0 && r.tainted[ret.Results[0]] {
				bad = true
				chain = r.chain(ret.Results[0])
			}
		}
		if bad {
			c.add(rule, fnName(fn)+":adds-only-constant-text", fn.Pos(), Violated, "a query combinator formats a client-controlled field into the SQL text", chain...)
		} else {
			c.ok(rule, fnName(fn)+":adds-only-constant-text", fn.Pos(), "the returned SQL is constant text around nested Build results (and set.operator)")
		}
	}
	if n < 3 {
		c.undecided(rule, "floor:Build-implementations", token.NoPos, fmt.Sprintf("expected set, keyValue and not; found %d implementations of Builder.Build in libs/query", n))
	}
	// writers of set.operator
	nW := 0
	for _, fn := range c.FuncsIn(pkgQuery) {
		for _, b := range fn.Blocks {
			for _, ins := range b.Instrs {
				v, _, ok := storeToField(ins, opField)
				if !ok {
					continue
				}
				nW++
				key := fnName(fn) + ":set.operator-is-constant"
				if _, isConst := constString(v); isConst {
					c.ok(rule, key, ins.Pos(), "constant")
					continue
				}
				// tail of a parameter whose call sites all compare it with constants
				okParam := false
				if sl, isSlice := v.(*ssa.Slice); isSlice {
					if p, isP := sl.X.(*ssa.Parameter); isP {
						okParam = true
						sites := c.CallersOf(fn)
						if len(sites) == 0 {
							okParam = false
						}
						for _, site := range sites {
							caller := site.Parent()
							clean := tc.sanitisedUses(caller)
							arg := site.Common().Args[paramIndex(p)]
							if _, isC := constString(arg); isC {
								continue
							}
							m := clean[site.(ssa.Instruction)]
							if m == nil || !m[arg] {
								okParam = false
							}
						}
					}
				}
				c.check(okParam, rule, key, ins.Pos(), "tail of a parameter that every call site has compared with constants", "set.operator (formatted verbatim between clauses) is assigned a value that is not a constant nor a parameter guarded by constant comparisons at every call site")
			}
		}
	}
	if nW == 0 {
		c.undecided(rule, "floor:set.operator-writers", token.NoPos, "no store to set.operator found")
	}
}

var bunFormatMethods = map[string]bool{
	"Where": true, "WhereOr": true, "Join": true, "JoinOn": true, "JoinOnOr": true, "ColumnExpr": true, "TableExpr": true, "ModelTableExpr": true,
	"OrderExpr": true, "GroupExpr": true, "Having": true, "Order": true, "Column": true, "Table": true, "Group": true, "With": false, "DistinctOn": true, "For": true,
}

func ruleR20c(c *Ctx, tc *taintCfg, build *types.Func) {
	const rule = "R20c"
	// "dirty" analysis: everything that is not provably constant-derived is tainted.
	cfg := newTaintCfg(c)
	cfg.cleanCall = func(call *ssa.Call) bool {
		if isCallTo(call, build) && ifaceMethodOf(call) != nil {
			return true
		}
		n := calleeFullName(call)
		switch n {
		case "(*" + pkgBun + ".SelectQuery).String":
			return true // a rendered sub-query: its own parts are checked where it is built
		}
		return false
	}
	paramDirty := map[*ssa.Parameter]int{} // 0 unknown, 1 clean, 2 dirty
	var paramIsClean func(p *ssa.Parameter, depth int) bool
	var valueIsClean func(fn *ssa.Function, user ssa.Instruction, v ssa.Value, depth int) bool
	var fieldIsClean func(f *types.Var) bool
	results := map[*ssa.Function]*taintResult{}
	// fieldIsClean: an unexported string field of a struct of package ledgerstore whose every store, anywhere in the
	// package, writes a clean value (`filter.where` assigned from Builder.Build only)
	fieldState := map[*types.Var]int{} // 1 clean, 2 dirty
	fieldIsClean = func(f *types.Var) bool {
		f = f.Origin()
		if st, ok := fieldState[f]; ok {
			return st == 1
		}
		fieldState[f] = 1 // optimistic inside a cycle
		if f.Exported() || f.Pkg() == nil || f.Pkg().Path() != pkgLedgerstore {
			fieldState[f] = 2
			return false
		}
		if bt, ok := f.Type().Underlying().(*types.Basic); !ok || bt.Info()&types.IsString == 0 {
			fieldState[f] = 2
			return false
		}
		for _, fn := range c.FuncsIn(pkgLedgerstore) {
			for _, b := range fn.Blocks {
				for _, ins := range b.Instrs {
					st, ok := ins.(*ssa.Store)
					if !ok {
						continue
					}
					fa, ok := st.Addr.(*ssa.FieldAddr)
					if !ok || !sameField(fieldOfAddr(fa), f) {
						continue
					}
					if !valueIsClean(fn, st, st.Val, 1) {
						fieldState[f] = 2
						return false
					}
				}
			}
		}
		return true
	}
	analyse := func(fn *ssa.Function) *taintResult {
		if r, ok := results[fn]; ok {
			return r
		}
		c2 := *cfg
		c2.extraSource = func(v ssa.Value) bool {
			switch x := v.(type) {
			case *ssa.Parameter:
				return !paramIsClean(x, 0)
			case *ssa.FreeVar:
				// captured variable: clean iff its binding is clean in the parent
				return !freeVarIsClean(c, x, valueIsClean)
			case *ssa.UnOp:
				if f, _ := anyFieldRead(x); f != nil {
					return !fieldIsClean(f) // struct fields: clean only when every writer stores a clean value
				}
			case *ssa.Field:
				if f, _ := anyFieldRead(x); f != nil {
					return !fieldIsClean(f)
				}
				return true
			}
			return false
		}
		results[fn] = nil
		r := c2.analyse(fn, nil)
		results[fn] = r
		return r
	}
	valueIsClean = func(fn *ssa.Function, user ssa.Instruction, v ssa.Value, depth int) bool {
		if _, ok := constString(v); ok {
			return true
		}
		if !carriesText(v.Type()) {
			return true
		}
		r := analyse(fn)
		if r == nil {
			return true // recursion: optimistic inside a cycle
		}
		if !r.tainted[v] {
			// variadic slice
			if sl, ok := v.(*ssa.Slice); ok {
				for _, e := range variadicElems(sl) {
					if !valueIsClean(fn, user, e, depth+1) {
						return false
					}
				}
			}
			return true
		}
		if user != nil && r.clean[user] != nil && r.clean[user][v] {
			return true
		}
		return false
	}
	paramIsClean = func(p *ssa.Parameter, depth int) bool {
		if st, ok := paramDirty[p]; ok {
			return st != 2
		}
		paramDirty[p] = 1 // optimistic for recursion
		if !carriesText(p.Type()) || depth > 6 {
			return true
		}
		if bt, ok := p.Type().Underlying().(*types.Basic); !ok || bt.Info()&types.IsString == 0 {
			// non-string parameters (structs, interfaces, contexts): their text content is not provably constant
			paramDirty[p] = 2
			return false
		}
		fn := p.Parent()
		sites := c.CallersOf(fn)
		if len(sites) == 0 {
			paramDirty[p] = 2
			return false
		}
		idx := paramIndex(p)
		for _, s := range sites {
			args := s.Common().Args
			if idx >= len(args) {
				paramDirty[p] = 2
				return false
			}
			if !valueIsClean(s.Parent(), s.(ssa.Instruction), args[idx], depth+1) {
				paramDirty[p] = 2
				return false
			}
		}
		return true
	}
	type site struct {
		fn   *ssa.Function
		call *ssa.Call
		m    string
	}
	var sites []site
	for _, fn := range c.FuncsIn(pkgLedgerstore) {
		if len(fn.Blocks) == 0 || fn.Synthetic != "" {
			continue
		}
		if strings.HasSuffix(c.Fset.Position(fn.Pos()).Filename, "migrations_v1.go") {
			continue
		}
		allCalls(fn, func(ci ssa.CallInstruction) {
			call, ok := ci.(*ssa.Call)
			if !ok {
				return
			}
			n := calleeFullName(call)
			if !strings.HasPrefix(n, "(*"+pkgBun+".SelectQuery).") {
				return
			}
			m := strings.TrimPrefix(n, "(*"+pkgBun+".SelectQuery).")
			if bunFormatMethods[m] {
				sites = append(sites, site{fn, call, m})
			}
		})
	}
	sort.Slice(sites, func(i, j int) bool { return sites[i].call.Pos() < sites[j].call.Pos() })
	seen := map[string]int{}
	for _, s := range sites {
		c.NSites++
		arg := s.call.Call.Args[1]
		key := fnName(s.fn) + ":" + s.m
		seen[key]++
		if n := seen[key]; n > 1 {
			key = fmt.Sprintf("%s#%d", key, n)
		}
		if valueIsClean(s.fn, s.call, arg, 0) {
			c.ok(rule, key, s.call.Pos(), "format derives from constants, Build results, rendered sub-queries or numeric/time formatting only")
		} else {
			var chain []string
			if r := results[s.fn]; r != nil {
				chain = r.chain(arg)
			}
			c.add(rule, key, s.call.Pos(), Violated, "the SQL text given to SelectQuery."+s.m+" is not provably made of constants and filter-builder output: a string that may hold client text is formatted into the query", chain...)
		}
	}
	if len(sites) < 20 {
		c.undecided(rule, "floor:format-sites", token.NoPos, fmt.Sprintf("only %d SelectQuery format call sites found in package ledgerstore", len(sites)))
	}
	// ---- R20d: values that bun renders verbatim. A bound `?` argument is data only as long as its dynamic type is
	// one bun quotes; schema.Safe / Name / Ident / QueryWithArgs (bun.Safe, bun.Ident, bun.SafeQuery …) are appended
	// to the statement as SQL text or as an identifier. Every string converted to one of them, anywhere in the
	// repository outside libs, must be clean in the sense of R20c.
	const ruleD = "R20d"
	pkgSchema := pkgBun + "/schema"
	rawNamed := func(t types.Type) string {
		if n := namedOf(t); n != nil && n.Obj().Pkg() != nil && n.Obj().Pkg().Path() == pkgSchema {
			switch n.Obj().Name() {
			case "Safe", "Name", "Ident", "QueryWithArgs", "QueryWithSep":
				return n.Obj().Name()
			}
		}
		return ""
	}
	nRaw := 0
	seenD := map[string]int{}
	for _, fn := range c.RepoFuncs() {
		if len(fn.Blocks) == 0 || fn.Synthetic != "" || strings.HasPrefix(fnPkgPath(origin(fn)), libsPath) {
			continue
		}
		if strings.HasSuffix(c.Fset.Position(fn.Pos()).Filename, "migrations_v1.go") {
			continue
		}
		for _, b := range fn.Blocks {
			for _, ins := range b.Instrs {
				var operand ssa.Value
				var what string
				switch x := ins.(type) {
				case *ssa.ChangeType:
					if k := rawNamed(x.Type()); k != "" && rawNamed(x.X.Type()) == "" {
						operand, what = x.X, "schema."+k
					}
				case *ssa.Convert:
					if k := rawNamed(x.Type()); k != "" && rawNamed(x.X.Type()) == "" {
						operand, what = x.X, "schema."+k
					}
				case *ssa.Call:
					if f := staticCallee(x); f != nil && fnPkgPath(f) == pkgSchema && len(x.Call.Args) > 0 {
						switch f.Name() {
						case "SafeQuery", "UnsafeIdent", "SafeQueryWithSep":
							operand, what = x.Call.Args[0], "schema."+f.Name()
						}
					}
				case *ssa.Store:
					if fa, ok := x.Addr.(*ssa.FieldAddr); ok {
						if pt, ok := fa.X.Type().Underlying().(*types.Pointer); ok && rawNamed(pt.Elem()) == "QueryWithArgs" {
							if st, ok := pt.Elem().Underlying().(*types.Struct); ok && st.Field(fa.Field).Name() == "Query" {
								operand, what = x.Val, "schema.QueryWithArgs.Query"
							}
						}
					}
				}
				if operand == nil {
					continue
				}
				nRaw++
				c.NSites++
				key := fnName(fn) + ":" + what
				seenD[key]++
				if n := seenD[key]; n > 1 {
					key = fmt.Sprintf("%s#%d", key, n)
				}
				if valueIsClean(fn, ins, operand, 0) {
					c.ok(ruleD, key, ins.Pos(), "the text rendered verbatim derives from constants only")
				} else {
					var chain []string
					if r := results[fn]; r != nil {
						chain = r.chain(operand)
					}
					c.add(ruleD, key, ins.Pos(), Violated, "a string that may hold client text is wrapped in "+what+", which bun appends to the statement without quoting it as a literal: passed as a `?` argument it is SQL structure, not data", chain...)
				}
			}
		}
	}
	c.Info["raw_sql_wrappers"] = nRaw

	// ---- R20e: a rendered query is text with the bound values already inside it as literals; formatting it AGAIN with
	// arguments makes bun look for placeholders inside those literals (`asset = 'USD?'`), and the next argument — the
	// client's filter value — is spliced into the middle of one. So the result of SelectQuery.String() is never (part
	// of) a format that is given arguments: neither in a builder call nor in the (sql, args) pair a filter returns.
	const ruleE = "R20e"
	var fromRendered func(v ssa.Value, depth int, seen map[ssa.Value]bool) bool
	fromRendered = func(v ssa.Value, depth int, seen map[ssa.Value]bool) bool {
		if v == nil || depth > 8 || seen[v] {
			return false
		}
		seen[v] = true
		switch x := v.(type) {
		case *ssa.Call:
			name := calleeFullName(x)
			if name == "(*"+pkgBun+".SelectQuery).String" {
				return true
			}
			if name == "fmt.Sprintf" || name == "fmt.Sprint" || strings.HasPrefix(name, "strings.") {
				for _, a := range x.Call.Args {
					if fromRendered(a, depth+1, seen) {
						return true
					}
					for _, e := range variadicElems(a) {
						if fromRendered(e, depth+1, seen) {
							return true
						}
					}
				}
			}
			if g := staticCallee(x); g != nil && inRepo(fnPkgPath(origin(g))) && len(g.Blocks) > 0 && isStringType(x.Type()) {
				for _, b := range g.Blocks {
					if r, ok := b.Instrs[len(b.Instrs)-1].(*ssa.Return); ok && len(r.Results) > 0 && fromRendered(r.Results[0], depth+1, seen) {
						return true
					}
				}
			}
		case *ssa.BinOp:
			return fromRendered(x.X, depth+1, seen) || fromRendered(x.Y, depth+1, seen)
		case *ssa.Phi:
			for _, e := range x.Edges {
				if fromRendered(e, depth+1, seen) {
					return true
				}
			}
		case *ssa.MakeInterface:
			return fromRendered(x.X, depth+1, seen)
		case *ssa.ChangeType:
			return fromRendered(x.X, depth+1, seen)
		case *ssa.Convert:
			return fromRendered(x.X, depth+1, seen)
		case *ssa.UnOp:
			if x.Op == token.MUL {
				if sv := singleStore(x.X); sv != nil {
					return fromRendered(sv, depth+1, seen)
				}
			}
		case *ssa.Extract:
			if call, ok := x.Tuple.(*ssa.Call); ok {
				if g := staticCallee(call); g != nil && inRepo(fnPkgPath(origin(g))) && len(g.Blocks) > 0 {
					for _, b := range g.Blocks {
						if r, ok := b.Instrs[len(b.Instrs)-1].(*ssa.Return); ok && x.Index < len(r.Results) && fromRendered(r.Results[x.Index], depth+1, seen) {
							return true
						}
					}
				}
			}
		}
		return false
	}
	hasArgs := func(v ssa.Value) bool {
		if v == nil || isNilConst(v) {
			return false
		}
		if sl, ok := v.(*ssa.Slice); ok {
			return len(variadicElems(sl)) > 0
		}
		return true // a slice of unknown content
	}
	nRendered := 0
	seenE := map[string]int{}
	for _, fn := range c.FuncsIn(pkgLedgerstore) {
		if len(fn.Blocks) == 0 || fn.Synthetic != "" || strings.HasSuffix(c.Fset.Position(fn.Pos()).Filename, "migrations_v1.go") {
			continue
		}
		for _, b := range fn.Blocks {
			for _, ins := range b.Instrs {
				var format, args ssa.Value
				var what string
				switch x := ins.(type) {
				case *ssa.Call:
					n := calleeFullName(x)
					if strings.HasPrefix(n, "(*"+pkgBun+".SelectQuery).") && bunFormatMethods[strings.TrimPrefix(n, "(*"+pkgBun+".SelectQuery).")] && len(x.Call.Args) >= 2 {
						format, what = x.Call.Args[1], "SelectQuery."+strings.TrimPrefix(n, "(*"+pkgBun+".SelectQuery).")
						if len(x.Call.Args) >= 3 {
							args = x.Call.Args[len(x.Call.Args)-1]
						}
					}
				case *ssa.Return:
					// a filter (or a helper of one): (sql string, args []any, err error)
					if len(x.Results) == 3 && isStringType(x.Results[0].Type()) {
						if _, isSl := x.Results[1].Type().Underlying().(*types.Slice); isSl {
							format, args, what = x.Results[0], x.Results[1], "the SQL fragment returned with its arguments"
						}
					}
				}
				if format == nil || !fromRendered(format, 0, map[ssa.Value]bool{}) {
					continue
				}
				nRendered++
				key := fnName(fn) + ":rendered-query-not-formatted-again"
				seenE[key]++
				if n := seenE[key]; n > 1 {
					key = fmt.Sprintf("%s#%d", key, n)
				}
				c.check(!hasArgs(args), ruleE, key, ins.Pos(), "the rendered sub-query is used as text, without arguments",
					"the text of a rendered query (SelectQuery.String(): bound values are already inside it as quoted literals) is used as "+what+" together with arguments: bun scans it again for `?`, finds the ones inside the literals (an asset `USD?`), and splices the client's value into the literal — the value's text becomes SQL")
			}
		}
	}
	c.Info["rendered_subqueries_used_as_text"] = nRendered
}

func freeVarIsClean(c *Ctx, fv *ssa.FreeVar, valueIsClean func(fn *ssa.Function, user ssa.Instruction, v ssa.Value, depth int) bool) bool {
	fn := fv.Parent()
	parent := fn.Parent()
	if parent == nil {
		return false
	}
	if !carriesText(fv.Type()) {
		return true
	}
	for i, f := range fn.FreeVars {
		if f != fv {
			continue
		}
		for _, b := range parent.Blocks {
			for _, ins := range b.Instrs {
				mc, ok := ins.(*ssa.MakeClosure)
				if !ok || mc.Fn != fn || i >= len(mc.Bindings) {
					continue
				}
				bnd := mc.Bindings[i]
				// a cell: every value stored into it must be clean
				if a, ok := bnd.(*ssa.Alloc); ok {
					for _, r := range *a.Referrers() {
						if st, ok := r.(*ssa.Store); ok && st.Addr == a {
							if !valueIsClean(parent, st, st.Val, 1) {
								return false
							}
						}
					}
					// stores from sibling closures
					if cellStoredInClosures(a) {
						for _, sib := range parent.AnonFuncs {
							for _, sb := range sib.Blocks {
								for _, si := range sb.Instrs {
									if st, ok := si.(*ssa.Store); ok && cellIdentity(st.Addr) == ssa.Value(a) {
										if !valueIsClean(sib, st, st.Val, 1) {
											return false
										}
									}
								}
							}
						}
					}
					continue
				}
				if !valueIsClean(parent, mc, bnd, 1) {
					return false
				}
			}
		}
	}
	return true
}
