package main

func init() {
	const cmdr = "internal/engine/command/commander.go"
	const lock = "internal/engine/command/lock.go"
	const mach = "internal/machine/vm/machine.go"
	addMutants(
		Mutant{Property: "C02", Name: "unlock-right-after-lock", File: cmdr, Old: "\t\tdefer unlock(ctx)\n", New: "\t\tunlock(ctx)\n", Expect: "R02a:"},
		Mutant{Property: "C02", Name: "no-wait-in-executor", File: cmdr, Old: "\t\t<-done\n\n\t\treturn chainedLog, done, nil", New: "\t\treturn chainedLog, done, nil", Expect: "R02a:(*internal/engine/command.Commander).exec$1:release-after-persist"},
		Mutant{Property: "C02", Name: "balances-read-before-lock", File: cmdr,
			Old: "\t\tunlock, err := commander.locker.Lock(ctx, lockAccounts)", New: "\t\tif err := m.ResolveBalances(ctx, commander.store); err != nil {\n\t\t\treturn nil, nil, err\n\t\t}\n\t\tunlock, err := commander.locker.Lock(ctx, lockAccounts)",
			Edits: []Edit{{File: cmdr, Old: "\t\terr = m.ResolveBalances(ctx, commander.store)\n\t\tif err != nil {\n\t\t\treturn nil, nil, errors.Wrap(err, \"could not resolve balances\")\n\t\t}\n", New: ""}},
			Expect: "R02a:(*internal/engine/command.Commander).exec$1:critical-ops-under-lock"},
		Mutant{Property: "C02", Name: "write-set-from-involved-accounts-swapped", File: cmdr,
			Old: "Write: collectionutils.Filter(involvedSources, worldFilter),", New: "Write: collectionutils.Filter(involvedAccounts[:len(involvedSources)*0], worldFilter),", Expect: "R02b:"},
		Mutant{Property: "C02", Name: "read-write-swapped", File: cmdr,
			Old: "\t\t\tRead:  collectionutils.Filter(involvedAccounts, worldFilter),\n\t\t\tWrite: collectionutils.Filter(involvedSources, worldFilter),", New: "\t\t\tRead:  collectionutils.Filter(involvedSources, worldFilter),\n\t\t\tWrite: collectionutils.Filter(involvedAccounts, worldFilter),", Expect: "R02b:"},
		Mutant{Property: "C02", Name: "filter-excludes-more", File: cmdr,
			Old: "worldFilter := collectionutils.FilterNot(collectionutils.FilterEq(\"world\"))", New: "worldFilter := func(s string) bool { return s != \"world\" && len(s) < 64 }", Expect: "R02b:"},
		Mutant{Property: "C02", Name: "metadata-account-not-recorded", File: mach,
			Old: "\t\t\tif val.GetType() == machine.TypeAccount {\n\t\t\t\tinvolvedAccountsMap[machine.Address(idx)] = string(val.(machine.AccountAddress))\n\t\t\t}\n\t\tcase program.VariableAccountBalance:", New: "\t\tcase program.VariableAccountBalance:", Expect: "R02b:ResolveResources:clause:result-of:NewValueFromString"},
		Mutant{Property: "C02", Name: "variable-account-not-recorded", File: mach,
			Old: "\t\t\t\treturn nil, nil, fmt.Errorf(\"missing variable '%s'\", res.Name)\n\t\t\t}\n\t\t\tif val.GetType() == machine.TypeAccount {\n\t\t\t\tinvolvedAccountsMap[machine.Address(idx)] = string(val.(machine.AccountAddress))\n\t\t\t}", New: "\t\t\t\treturn nil, nil, fmt.Errorf(\"missing variable '%s'\", res.Name)\n\t\t\t}", Expect: "R02b:ResolveResources:clause:lookup:Vars"},
		Mutant{Property: "C02", Name: "sources-from-needed-balances", File: mach,
			Old: "involvedSources = append(involvedSources, involvedAccountsMap[machineAddress])", New: "involvedSources = append(involvedSources, involvedAccounts[int(machineAddress)%len(involvedAccounts)])", Expect: "R02b:ResolveResources:involved-sources-result"},
		Mutant{Property: "C02", Name: "write-does-not-exclude-readers", File: lock,
			Old: "\t\t_, ok := chain.readLocks[account]\n\t\tif ok {\n\t\t\treturn false\n\t\t}\n", New: "", Expect: "R02c:tryLock:test:Write-vs-readLocks",
			Edits: []Edit{{File: lock, Old: "\t\t_, ok = chain.writeLocks[account]", New: "\t\t_, ok := chain.writeLocks[account]"}}},
		Mutant{Property: "C02", Name: "noop-locker-in-production", File: "internal/engine/ledger.go",
			Old: "\t\t\tcommand.NewDefaultLocker(),", New: "\t\t\tcommand.NoOpLocker,", Expect: "R02d:"},
		Mutant{Property: "C02", Name: "executes-other-machine", File: cmdr,
			Old: "\t\tresult, err := vm.Run(m, script)", New: "\t\tm2 := vm.NewMachine(*program)\n\t\t_ = m2.SetVarsFromJSON(script.Vars)\n\t\t_, _, _ = m2.ResolveResources(ctx, commander.store)\n\t\t_ = m2.ResolveBalances(ctx, commander.store)\n\t\tresult, err := vm.Run(m2, script)", Expect: "R02b:"},
	)
	addMutants(
		Mutant{Property: "C15", Name: "cancel-removes-without-mutex", File: lock,
			Old: "\t\tdefaultLocker.mu.Lock()\n\t\tselect {\n\t\tcase <-intent.acquired:\n\t\t\tintent.unlock(ctx, defaultLocker)\n\t\t\trecheck()\n\t\tdefault:\n\t\t\tdefaultLocker.intents.RemoveValue(intent)\n\t\t}\n\t\tdefaultLocker.mu.Unlock()\n", New: "\t\tdefaultLocker.intents.RemoveValue(intent)\n", Expect: "R15d:"},
		Mutant{Property: "C15", Name: "cancel-ignores-grant", File: lock,
			Old: "\t\tselect {\n\t\tcase <-intent.acquired:\n\t\t\tintent.unlock(ctx, defaultLocker)\n\t\t\trecheck()\n\t\tdefault:\n\t\t\tdefaultLocker.intents.RemoveValue(intent)\n\t\t}\n", New: "\t\tdefaultLocker.intents.RemoveValue(intent)\n", Expect: "R15d:"},
		Mutant{Property: "C15", Name: "cancel-grant-no-recheck", File: lock,
			Old: "\t\t\tintent.unlock(ctx, defaultLocker)\n\t\t\trecheck()\n\t\tdefault:", New: "\t\t\tintent.unlock(ctx, defaultLocker)\n\t\tdefault:", Expect: "R15c:"},
		Mutant{Property: "C15", Name: "release-without-recheck", File: lock,
			Old: "\t\tintent.unlock(logging.ContextWithLogger(ctx, logger), defaultLocker)\n\n\t\trecheck()\n", New: "\t\tintent.unlock(logging.ContextWithLogger(ctx, logger), defaultLocker)\n", Expect: "R15c:"},
		Mutant{Property: "C15", Name: "release-without-mutex", File: lock,
			Old: "\t\tdefaultLocker.mu.Lock()\n\t\tdefer defaultLocker.mu.Unlock()\n\n\t\tintent.unlock(", New: "\t\tintent.unlock(", Expect: "R15a:"},
		Mutant{Property: "C15", Name: "queue-append-after-unlock", File: lock,
			Old: "\tdefaultLocker.intents.Append(intent)\n\tdefaultLocker.mu.Unlock()\n", New: "\tdefaultLocker.mu.Unlock()\n\tdefaultLocker.intents.Append(intent)\n", Expect: "R15a:"},
		Mutant{Property: "C15", Name: "read-does-not-see-writers", File: lock,
			Old: "\tfor _, account := range intent.accounts.Read {\n\t\t_, ok := chain.writeLocks[account]\n\t\tif ok {\n\t\t\treturn false\n\t\t}\n\t}\n", New: "", Expect: "R15b:tryLock:test:Read-vs-writeLocks"},
		Mutant{Property: "C15", Name: "read-entry-deleted-always", File: lock,
			Old: "\t\tif atomicValue.Add(-1) == 0 {\n\t\t\tdelete(chain.readLocks, account)\n\t\t}", New: "\t\tatomicValue.Add(-1)\n\t\tdelete(chain.readLocks, account)", Expect: "R15b:unlock:read-entry-deleted-at-zero"},
		Mutant{Property: "C15", Name: "unlock-forgets-write-locks", File: lock,
			Old: "\tfor _, account := range intent.accounts.Write {\n\t\tdelete(chain.writeLocks, account)\n\t}\n", New: "", Expect: "R15b:unlock:releases-mirror-acquisitions"},
		Mutant{Property: "C15", Name: "test-and-take-interleaved", File: lock,
			Old: "\t\t_, ok = chain.writeLocks[account]\n\t\tif ok {\n\t\t\treturn false\n\t\t}\n\t}\n", New: "\t\t_, ok = chain.writeLocks[account]\n\t\tif ok {\n\t\t\treturn false\n\t\t}\n\t\tchain.writeLocks[account] = struct{}{}\n\t}\n", Expect: "R15b:tryLock:tests-before-acquisitions"},
	)
}
