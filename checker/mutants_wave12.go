package main

// Mutants for the rules added after the fifth micro-mutation wave.
func init() {
	const inmem = "internal/storage/inmemory.go"
	const mon = "internal/machine/monetary.go"
	const meta = "internal/metadata.go"
	const ll = "libs/collectionutils/linked_list.go"
	const resp = "libs/api/response.go"
	addMutants(
		Mutant{Property: "C04", Name: "last-transaction-is-the-first", File: inmem,
			Old: "\treturn m.transactions[len(m.transactions)-1], nil", New: "\treturn m.transactions[0], nil", Expect: "R04j:"},
		Mutant{Property: "C05", Name: "last-log-indexed-with-the-number-of-transactions", File: inmem,
			Old: "\treturn m.logs[len(m.logs)-1], nil", New: "\treturn m.logs[len(m.transactions)-1], nil", Expect: "R05o:"},
		Mutant{Property: "C10", Name: "last-transaction-is-the-first", File: inmem,
			Old: "\treturn m.transactions[len(m.transactions)-1], nil", New: "\treturn m.transactions[0], nil", Expect: "R10o:"},
		Mutant{Property: "C10", Name: "revert-marker-swapped", File: meta,
			Old: "\t\tkey: value,", New: "\t\tvalue: key,", Expect: "R10n:"},
		Mutant{Property: "C08", Name: "equal-compares-the-low-64-bits", File: mon,
			Old: "func (a *MonetaryInt) Equal(b *MonetaryInt) bool {\n\treturn (*big.Int)(a).Cmp((*big.Int)(b)) == 0", New: "func (a *MonetaryInt) Equal(b *MonetaryInt) bool {\n\treturn (*big.Int)(a).Uint64() == (*big.Int)(b).Uint64()", Expect: "R08n:MonetaryInt.Equal"},
		Mutant{Property: "C15", Name: "remove-value-compares-the-element-with-itself", File: ll,
			Old: "\t\treturn (any)(t) == (any)(t2)", New: "\t\treturn (any)(t2) == (any)(t2)", Expect: "R15h:LinkedList.RemoveValue"},
		Mutant{Property: "C17", Name: "fetch-all-drops-the-last-page", File: resp,
			Old: "\t\tret = append(ret, apiResponse.Cursor.Data...)\n\t\tif !apiResponse.Cursor.HasMore {\n\t\t\tbreak\n\t\t}\n", New: "\t\tif !apiResponse.Cursor.HasMore {\n\t\t\tbreak\n\t\t}\n\t\tret = append(ret, apiResponse.Cursor.Data...)\n", Expect: "R17k:"},
	)
}
