package main

// callres.go — lightweight resolution of calls inside the repo without a whole-program call graph:
// static callees, closures bound to locals, and function values that reach a call through
// parameters (a literal passed as argument and invoked by the callee). Also the reverse index.

import (
	"go/token"
	"go/types"

	"golang.org/x/tools/go/ssa"
)

type callIndex struct {
	callers map[*ssa.Function][]ssa.CallInstruction // static + resolved-dynamic call sites per callee
	built   bool
}

func (c *Ctx) ensureCallIndex() {
	if c.cidx != nil {
		return
	}
	c.cidx = &callIndex{callers: map[*ssa.Function][]ssa.CallInstruction{}}
	fns := c.RepoFuncs()
	// pass 1: static callees
	for _, fn := range fns {
		allCalls(fn, func(ci ssa.CallInstruction) {
			if f := staticCallee(ci); f != nil {
				c.cidx.callers[f] = append(c.cidx.callers[f], ci)
				if o := f.Origin(); o != nil && o != f {
					c.cidx.callers[o] = append(c.cidx.callers[o], ci)
				}
			}
		})
	}
	// pass 2: dynamic calls of parameters / captured values resolved through pass-1 callers
	for _, fn := range fns {
		allCalls(fn, func(ci ssa.CallInstruction) {
			cc := ci.Common()
			if cc.IsInvoke() || staticCallee(ci) != nil {
				return
			}
			for _, f := range c.resolveFuncValue(cc.Value, 0) {
				c.cidx.callers[f] = append(c.cidx.callers[f], ci)
			}
		})
	}
	c.cidx.built = true
}

// CallersOf returns the call instructions that (may) call fn: static calls and dynamic calls whose
// function value was resolved to fn through parameters/captures.
func (c *Ctx) CallersOf(fn *ssa.Function) []ssa.CallInstruction {
	c.ensureCallIndex()
	return c.cidx.callers[fn]
}

// CalleesOf resolves the functions a call may invoke (nil if unknown, e.g. interface invoke).
func (c *Ctx) CalleesOf(ci ssa.CallInstruction) []*ssa.Function {
	if f := staticCallee(ci); f != nil {
		return []*ssa.Function{f}
	}
	if ci.Common().IsInvoke() {
		return nil
	}
	c.ensureCallIndex()
	return c.resolveFuncValue(ci.Common().Value, 0)
}

// resolveFuncValue finds the function literals / functions a func-typed value may denote, following
// parameters to the arguments at the (static) call sites of the enclosing function, free variables
// to their bindings, and single-store cells. Returns nil when some source cannot be resolved.
func (c *Ctx) resolveFuncValue(v ssa.Value, depth int) []*ssa.Function {
	if depth > 8 || v == nil {
		return nil
	}
	if f := closureOf(v, 0); f != nil {
		return []*ssa.Function{f}
	}
	switch x := v.(type) {
	case *ssa.Parameter:
		fn := x.Parent()
		idx := paramIndex(x)
		var out []*ssa.Function
		sites := c.cidx.callers[fn]
		if fn.Origin() != nil {
			sites = append(sites, c.cidx.callers[fn.Origin()]...)
		}
		if len(sites) == 0 {
			return nil
		}
		for _, site := range sites {
			args := site.Common().Args
			if idx >= len(args) {
				return nil
			}
			r := c.resolveFuncValue(args[idx], depth+1)
			if r == nil {
				return nil
			}
			out = append(out, r...)
		}
		return dedupFns(out)
	case *ssa.FreeVar:
		fn := x.Parent()
		for i, fv := range fn.FreeVars {
			if fv != x {
				continue
			}
			parent := fn.Parent()
			if parent == nil {
				return nil
			}
			var out []*ssa.Function
			for _, b := range parent.Blocks {
				for _, ins := range b.Instrs {
					if mc, ok := ins.(*ssa.MakeClosure); ok && mc.Fn == fn && i < len(mc.Bindings) {
						r := c.resolveFuncValue(mc.Bindings[i], depth+1)
						if r == nil {
							return nil
						}
						out = append(out, r...)
					}
				}
			}
			return dedupFns(out)
		}
	case *ssa.UnOp:
		if x.Op == token.MUL {
			// load of a cell: all stored values must resolve
			var cell ssa.Value = x.X
			if s := singleStore(cell); s != nil {
				return c.resolveFuncValue(s, depth+1)
			}
			if fv, ok := cell.(*ssa.FreeVar); ok {
				_ = fv
				return nil
			}
			if a, ok := cell.(*ssa.Alloc); ok {
				var out []*ssa.Function
				n := 0
				for _, r := range *a.Referrers() {
					if st, ok := r.(*ssa.Store); ok && st.Addr == a {
						rr := c.resolveFuncValue(st.Val, depth+1)
						if rr == nil {
							return nil
						}
						out = append(out, rr...)
						n++
					}
				}
				if n > 0 {
					return dedupFns(out)
				}
			}
		}
	case *ssa.Phi:
		var out []*ssa.Function
		for _, e := range x.Edges {
			r := c.resolveFuncValue(e, depth+1)
			if r == nil {
				return nil
			}
			out = append(out, r...)
		}
		return dedupFns(out)
	case *ssa.ChangeType:
		return c.resolveFuncValue(x.X, depth+1)
	case *ssa.Call:
		// the result of a helper of the repository that returns a function (a decorator: `withKey(builder)`)
		return c.resolveReturnedFuncs(x, 0, depth)
	case *ssa.Extract:
		if call, ok := x.Tuple.(*ssa.Call); ok {
			return c.resolveReturnedFuncs(call, x.Index, depth)
		}
		if lk, ok := x.Tuple.(*ssa.Lookup); ok && x.Index == 0 {
			return c.resolveTableFuncs(lk, depth)
		}
	case *ssa.Lookup:
		return c.resolveTableFuncs(x, depth)
	}
	return nil
}

// resolveTableFuncs: `handlers[key]` where handlers is a package-level map (or array) of functions that is filled by
// the package initialiser only: any of the functions stored in it.
func (c *Ctx) resolveTableFuncs(lk *ssa.Lookup, depth int) []*ssa.Function {
	ld, ok := lk.X.(*ssa.UnOp)
	if !ok || ld.Op != token.MUL {
		return nil
	}
	g, ok := ld.X.(*ssa.Global)
	if !ok || g.Pkg == nil || !inRepo(g.Pkg.Pkg.Path()) {
		return nil
	}
	initFn := g.Pkg.Func("init")
	if initFn == nil {
		return nil
	}
	// no store to the global, and no update of the table, outside init
	for _, fn := range c.RepoFuncs() {
		if fn == initFn || fn.Pkg != g.Pkg {
			continue
		}
		for _, b := range fn.Blocks {
			for _, ins := range b.Instrs {
				switch y := ins.(type) {
				case *ssa.Store:
					if y.Addr == ssa.Value(g) {
						return nil
					}
				case *ssa.MapUpdate:
					if l, ok := y.Map.(*ssa.UnOp); ok && l.X == ssa.Value(g) {
						return nil
					}
				}
			}
		}
	}
	var tables []ssa.Value
	for _, b := range initFn.Blocks {
		for _, ins := range b.Instrs {
			if st, ok := ins.(*ssa.Store); ok && st.Addr == ssa.Value(g) {
				tables = append(tables, st.Val)
			}
		}
	}
	if len(tables) == 0 {
		return nil
	}
	var out []*ssa.Function
	for _, t := range tables {
		if t.Referrers() == nil {
			return nil
		}
		n := 0
		for _, r := range *t.Referrers() {
			mu, ok := r.(*ssa.MapUpdate)
			if !ok || mu.Map != t {
				continue
			}
			n++
			rr := c.resolveFuncValue(mu.Value, depth+1)
			if rr == nil {
				return nil
			}
			out = append(out, rr...)
		}
		if n == 0 {
			return nil
		}
	}
	return dedupFns(out)
}

func (c *Ctx) resolveReturnedFuncs(call *ssa.Call, idx int, depth int) []*ssa.Function {
	callee := staticCallee(call)
	if callee == nil || !inRepo(fnPkgPath(callee)) || len(callee.Blocks) == 0 {
		return nil
	}
	var out []*ssa.Function
	n := 0
	for _, b := range callee.Blocks {
		ret, ok := b.Instrs[len(b.Instrs)-1].(*ssa.Return)
		if !ok || idx >= len(ret.Results) {
			continue
		}
		n++
		v := ret.Results[idx]
		if isNilConst(v) {
			continue // error paths return no function
		}
		r := c.resolveFuncValue(v, depth+1)
		if r == nil {
			return nil
		}
		out = append(out, r...)
	}
	if n == 0 || len(out) == 0 {
		return nil
	}
	return dedupFns(out)
}

func dedupFns(in []*ssa.Function) []*ssa.Function {
	seen := map[*ssa.Function]bool{}
	var out []*ssa.Function
	for _, f := range in {
		if !seen[f] {
			seen[f] = true
			out = append(out, f)
		}
	}
	return out
}

// reachesStatic: does fn reach (through resolved calls inside the repo, depth-bounded) a call for
// which pred holds? Memoised per predicate by the caller.
func (c *Ctx) reachesStatic(fn *ssa.Function, pred func(ssa.CallInstruction) bool, memo map[*ssa.Function]int, depth int) bool {
	if fn == nil || depth > 12 {
		return false
	}
	if v, ok := memo[fn]; ok {
		return v == 1
	}
	memo[fn] = 0
	found := false
	for _, f := range withLiterals(fn) {
		if f != fn {
			// literals are reached only when called; handled through CalleesOf below
			continue
		}
		allCalls(f, func(ci ssa.CallInstruction) {
			if found {
				return
			}
			if pred(ci) {
				found = true
				return
			}
			for _, callee := range c.CalleesOf(ci) {
				if inRepo(fnPkgPath(callee)) && c.reachesStatic(callee, pred, memo, depth+1) {
					found = true
					return
				}
			}
		})
	}
	if found {
		memo[fn] = 1
	}
	return found
}

// methodOf returns the *types.Func of a concrete method by receiver type and name.
func (c *Ctx) methodObj(pkgPath, typeName, method string) *types.Func {
	n := c.Named(pkgPath, typeName)
	if n == nil {
		return nil
	}
	for i := 0; i < n.NumMethods(); i++ {
		if n.Method(i).Name() == method {
			return n.Method(i)
		}
	}
	return nil
}
