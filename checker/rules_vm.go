package main

import (
	"fmt"
	"go/constant"
	"go/token"
	"go/types"
	"sort"
	"strings"

	"golang.org/x/tools/go/ssa"
)

const (
	pkgCompiler = modPath + "/internal/machine/script/compiler"
	pkgProgram  = modPath + "/internal/machine/vm/program"
)

func init() {
	register("C01", propMeta{
		Level: "other",
		Explanation: "The statement is a running-balance inequality over big integers and is not decided as a whole. Decided structural clauses, each a necessary condition: R01a the only opcode that debits without a balance test (OP_TAKE_ALWAYS) is emitted by the compiler only under `fallback != nil`, right after pushing that fallback's address, and a non-nil fallback is created only for @world (edge isWorld == true) or in the `allowing unbounded overdraft` clause; the VM executes it only through withdrawAlways; " +
			"R01b Machine.Balances is written only by its owners (ResolveBalances, withdrawAll, withdrawAlways, credit, repay, OP_SAVE); R01c money values are immutable: no mutating big.Int method is applied to a receiver that is not freshly allocated (machine.Zero is shared by every comparison); R01d vm.Run returns no result on the error edge of Execute, and OP_TAKE maps a short funding to ErrInsufficientFund; R01e OP_TAKE_MAX refuses negative amounts before taking. R01h: every entry m.Balances[A][K] written by ResolveBalances is Store.GetBalance(ctx, A, K) of the same account and asset (or machine.Zero for world): the funds a script is checked against are those of the account it debits.",
		NotDecided:  "the arithmetic of withdrawAll / Take / TakeMax / repay and that the stack carries the right funding to OP_TAKE — value-level facts through a stack whose layout is data.",
		Trusted:     []string{"math/big semantics"},
	}, func(c *Ctx) {
		ruleR01a(c)
		ruleR01b(c)
		ruleR01c(c, "R01c")
		ruleR01de(c)
		ruleR01f(c)
		ruleAmountOpsMatch(c, "R01i")
		ruleR01h(c)
		ruleR01g(c)
	})
	register("C08", propMeta{
		Level: "other",
		Explanation: "Semantic equivalence of compiler and source is translation validation and is not decided. Decided clauses: R08a a compiled program shared through the cache is never mutated: no value derived from Program.{Instructions,Resources,Sources,NeededBalances} (or Machine.UnresolvedResources / Machine.Program) is the target of an element store, map update, append, copy, delete or sort outside package compiler, and shared *MonetaryInt values are immutable (R01c); " +
			"R08b the cache key is a digest of the whole script text and what is returned for a key is what was stored under it; R08c opcode tables agree: OP_* constants = cases of Machine.tick = cases of OpcodeName, every emitted opcode is one of them, and the operand width written by the compiler (Address.ToBytes) equals the width OP_APUSH consumes; R08d the static type discipline is applied: the type returned by VisitExpr/VisitVariable/VisitLit is compared or propagated at every call site (frozen exceptions: polymorphic consumers, and VisitMonetary which checks the same expression first); R08e the address VisitExpr returns for push=false is used as the value only for types that have no compound form (the compound types are read from VisitExpr's own returns), otherwise only for the asset (OP_ASSET / needed balances); R01f (shared with C01) the owners of the balance book-keeping debit exactly what they hand out — `sources are drained in written order` is computed on those tracked balances; R08l the lexer and the parser built by the compiler are both given its collecting error listener (a text with characters outside the alphabet is refused, not silently trimmed); R08j a type check of the compiler cannot be walked around: from every call whose static type is compared with a type constant, each path to a successful return passes an edge on which the type equals a constant; R08i every number text of a script or variable is parsed with the constant base 10 (big.Int.SetString, strconv.ParseInt/ParseUint in the machine packages); R08h an arithmetic opcode is emitted only on paths where the static types of both operands were compared equal to the operand type of the opcode; R08g the subtraction opcodes compute (value popped second) − (value popped first), the order in which the compiler pushed the operands; R08f the text of a composite parse-tree node (a generated context type with a child-rule accessor; antlr concatenates its tokens without the skipped white space) never identifies the node: in package compiler it reaches no map key, map lookup or equality test between nodes.",
		NotDecided:  "that the emitted instruction sequence implements each statement; resource ordering; exactness of arithmetic.",
		Trusted:     []string{"gcache returns the value stored under the key", "sha256"},
	}, func(c *Ctx) {
		ruleR08a(c)
		ruleR01c(c, "R08a.money")
		ruleR08b(c)
		ruleR08c(c)
		ruleR08d(c, "R08d")
		ruleR08e(c, "R08e")
		ruleR08f(c, "R08f")
		ruleR08g(c, "R08g")
		ruleR08h(c, "R08h")
		ruleDecimalParses(c, "R08i", 1)
		ruleR08j(c, "R08j", 10)
		ruleRecognizersReportErrors(c, "R08l")
		ruleQuotesOnlyTrimmed(c, "R08m")
		ruleAmountOpsMatch(c, "R08n")
		ruleR12h(c)
		ruleR01f(c)
	})
	register("C12", propMeta{
		Level: "other",
		Explanation: "Sound panic-freedom is out of reach (indexing, assertions whose safety is a compiler↔VM invariant). Decided clauses tied to the mechanisms the property names: R12a every write into the per-account balance map goes through a checked lookup (comma-ok / owner that creates the entry), frozen exception repay; R12b the registry of balance variables awaiting resolution is keyed by the resource index (injective); " +
			"R12c the VM terminates: every store to Machine.P adds a positive constant, every path of tick that reports `not finished` advanced P, Execute leaves its loop when tick reports finished, and every iteration of ResolveResources appends exactly one resource or returns; R12d nothing is left behind: no store to package-level variables in internal/machine/** and internal/engine/command outside initialisers, shared programs are not mutated (R08a) and shared amounts (machine.Zero, constants of a cached program, stored balances) are never modified in place (R12f: mutating big.Int methods only on freshly allocated receivers); R12e compile-time type checks are applied (R08d); R12g no error returned by a function of the compiler is dropped by its caller; R12h a pointer-typed variable value is shown non-nil before it is stored (JSON null). The explicit panics reachable from compile/run are listed in the evidence (informational). R12j: the account lock taken for an execution is released on every exit of the executor, error returns of ResolveBalances and vm.Run included (the lock-span path rule R02a of C02, read here for its `released-on-every-exit` obligations: a lock left behind blocks every later execution on those accounts). R12m: an arithmetic opcode is emitted only for operands whose static types were both compared equal to its operand type (R08h; otherwise the typed pop panics). R12n: lexer and parser report to the collecting listener. R12l: where the compiler compares the static type of a sub-expression with a type constant, every path from that call to a successful return passes an edge on which the type equals a constant (a weakened `!= T && …` test lets a script of the wrong type through to a type assertion of the machine). R12k: command.Compiler stores into its cache only behind the nil test of the compilation error (no nil program under the digest of a script that does not compile). R12i: in the machine packages every math/big division (NewRat, SetFrac, Quo, Inv, Div, Rem, Mod …) and integer / or % has a divisor that is a non-zero constant, a Rat.Denom(), or a value tested in a dominating branch.",
		NotDecided:  "the ANTLR parser; index/slice bounds; nil dereferences other than the balance-map ones; JSON variable parsing.",
		Trusted:     []string{"go/ssa"},
	}, func(c *Ctx) {
		ruleR12a(c)
		ruleR12b(c)
		ruleR12c(c)
		ruleR12d(c)
		ruleR08a(c)
		ruleR01c(c, "R12f")
		ruleR08d(c, "R12e")
		ruleR12g(c)
		ruleR12h(c)
		ruleR12i(c)
		ruleR02a(c, "R12j")
		ruleCacheOnlyCompiled(c, "R12k")
		ruleR08j(c, "R12l", 10)
		ruleR08h(c, "R12m")
		ruleRecognizersReportErrors(c, "R12n")
		listPanics(c)
	})
}

func opConst(c *Ctx, name string) (int64, bool) {
	p := c.Pkg(pkgProgram)
	if p == nil {
		return 0, false
	}
	k, ok := p.Types.Scope().Lookup(name).(*types.Const)
	if !ok {
		return 0, false
	}
	return constInt64(k)
}

// opEmissions: calls of parseVisitor.AppendInstruction (and direct appends of constants to p.instructions).
type emission struct {
	fn   *ssa.Function
	ins  ssa.Instruction
	op   int64
	isOK bool
	via  ssa.Value // the non-constant value (a phi or a local assigned constants) the byte is one possible value of
}

// constBytes: the constants a value can be (a constant, a phi of constants, a local only ever assigned constants).
func constBytes(v ssa.Value, depth int) ([]int64, bool) {
	if depth > 4 {
		return nil, false
	}
	switch x := v.(type) {
	case *ssa.Const:
		n, ok := constInt(x)
		return []int64{n}, ok
	case *ssa.Phi:
		var out []int64
		for _, e := range x.Edges {
			ns, ok := constBytes(e, depth+1)
			if !ok {
				return nil, false
			}
			out = append(out, ns...)
		}
		return out, true
	case *ssa.UnOp:
		if al, ok := x.X.(*ssa.Alloc); ok && x.Op == token.MUL {
			var out []int64
			for _, r := range *al.Referrers() {
				switch y := r.(type) {
				case *ssa.Store:
					if y.Addr != ssa.Value(al) {
						return nil, false
					}
					ns, ok := constBytes(y.Val, depth+1)
					if !ok {
						return nil, false
					}
					out = append(out, ns...)
				case *ssa.UnOp, *ssa.DebugRef:
				default:
					return nil, false
				}
			}
			return out, len(out) > 0
		}
	case *ssa.Convert:
		return constBytes(x.X, depth+1)
	}
	return nil, false
}

func opEmissions(c *Ctx) []emission {
	var out []emission
	appendIns := c.Fn(pkgCompiler, "parseVisitor.AppendInstruction")
	insF := c.Field(pkgCompiler, "parseVisitor", "instructions")
	for _, fn := range c.FuncsIn(pkgCompiler) {
		for _, b := range fn.Blocks {
			for _, ins := range b.Instrs {
				call, ok := ins.(*ssa.Call)
				if !ok {
					continue
				}
				if callsFn(call, appendIns) {
					if n, isC := constInt(call.Call.Args[1]); isC {
						out = append(out, emission{fn, ins, n, true, nil})
					} else if ns, ok := constBytes(call.Call.Args[1], 0); ok {
						seenN := map[int64]bool{}
						for _, n := range ns {
							if n != 0 && !seenN[n] { // 0: the zero value of a `var op byte` declared before a switch assigns it
								seenN[n] = true
								out = append(out, emission{fn, ins, n, true, call.Call.Args[1]})
							}
						}
					} else {
						out = append(out, emission{fn, ins, 0, false, nil})
					}
					continue
				}
				if bi, ok := call.Call.Value.(*ssa.Builtin); ok && bi.Name() == "append" && insF != nil {
					if _, isIns := fieldRead(call.Call.Args[0], insF); isIns && len(call.Call.Args) > 1 {
						for _, e := range variadicElems(call.Call.Args[1]) {
							if fn == appendIns {
								continue // the parameter of AppendInstruction itself
							}
							n, isC := constInt(e)
							out = append(out, emission{fn, ins, n, isC, nil})
						}
					}
				}
			}
		}
	}
	return out
}

// takeAlwaysHelperOK: fn has a FallbackAccount value parameter whose address is pushed on every path to the emission,
// and at every call site the argument is `*fb` with `fb != nil` established. Returns "" when so.
func takeAlwaysHelperOK(c *Ctx, fn *ssa.Function, emission ssa.Instruction, fbT *types.Named, pushAddr *ssa.Function, isFallbackPtr func(ssa.Value) bool) string {
	var param *ssa.Parameter
	for _, p := range fn.Params {
		if types.Identical(p.Type(), fbT) {
			param = p
		}
	}
	if param == nil {
		return "no fallback parameter"
	}
	pushed := guardedByStep(c, fn, emission, func(ins ssa.Instruction) bool {
		call, ok := ins.(*ssa.Call)
		if !ok || !callsFn(call, pushAddr) {
			return false
		}
		a := call.Call.Args[1]
		for i := 0; i < 4; i++ {
			switch x := a.(type) {
			case *ssa.Convert:
				a = x.X
				continue
			case *ssa.ChangeType:
				a = x.X
				continue
			}
			break
		}
		return stripLoadOfParamCell(a) == ssa.Value(param)
	})
	if !pushed {
		return "the helper does not push the account it was given before emitting"
	}
	sites := c.CallersOf(fn)
	if len(sites) == 0 {
		return "no call site"
	}
	pi := paramIndex(param)
	for _, site := range sites {
		caller := site.Parent()
		args := site.Common().Args
		if caller == nil || pi >= len(args) {
			return "unresolved call site"
		}
		u, ok := args[pi].(*ssa.UnOp)
		if !ok || u.Op != token.MUL || !isFallbackPtr(u.X) {
			return "a call site passes something else than a dereferenced fallback pointer"
		}
		ptr := u.X
		if !guardedByFact(c, caller, site, func(f Fact) (bool, bool) {
			if f.X == ptr && isNilConst(f.Y) {
				return true, !f.Eq
			}
			return false, false
		}) {
			return "a call site passes *fallback without having established fallback != nil"
		}
	}
	return ""
}

// guardedByStep: every path from the entry to `use` passes an instruction for which hit holds.
func guardedByStep(c *Ctx, fn *ssa.Function, use ssa.Instruction, hit func(ssa.Instruction) bool) bool {
	ok, seen := true, false
	pr := &PathRule{
		Step: func(pc *PathCtx, s uint64, ins ssa.Instruction) uint64 {
			if hit(ins) {
				s |= 1
			}
			if ins == use {
				seen = true
				if s&1 == 0 {
					ok = false
				}
			}
			return s
		},
	}
	c.RunPaths(fn, 0, pr)
	return ok && seen
}

// ---- R01a ------------------------------------------------------------------------------------

func ruleR01a(c *Ctx) {
	const rule = "R01a"
	takeAlways, ok := opConst(c, "OP_TAKE_ALWAYS")
	if !ok {
		c.undecided(rule, "anchor:OP_TAKE_ALWAYS", token.NoPos, "constant not found")
		return
	}
	fbT := c.Named(pkgCompiler, "FallbackAccount")
	pushAddr := c.Fn(pkgCompiler, "parseVisitor.PushAddress")
	isWorld := c.Fn(pkgCompiler, "parseVisitor.isWorld")
	if fbT == nil || pushAddr == nil || isWorld == nil {
		c.undecided(rule, "anchor:compiler.FallbackAccount/PushAddress/isWorld", token.NoPos, "not found")
		return
	}
	isFallbackPtr := func(v ssa.Value) bool {
		p, ok := v.Type().(*types.Pointer)
		return ok && types.Identical(p.Elem(), fbT)
	}
	n := 0
	for _, e := range opEmissions(c) {
		if !e.isOK || e.op != takeAlways {
			continue
		}
		n++
		fn := e.fn
		key := fnName(fn) + ":take-always-only-for-a-fallback-account"
		// every path to the emission: crossed `fb != nil` for some *FallbackAccount fb and pushed Address(*fb)
		okAll := true
		var trail []string
		idx := map[ssa.Value]uint{}
		pr := &PathRule{
			Edge: func(pc *PathCtx, s uint64, from *ssa.BasicBlock, si int) (uint64, bool) {
				for _, f := range pc.edgeFacts(from, si) {
					if isFallbackPtr(f.X) && isNilConst(f.Y) && !f.Eq {
						if _, ok := idx[f.X]; !ok {
							idx[f.X] = uint(len(idx))
						}
						s |= 1 << (2 * idx[f.X])
					}
				}
				return s, true
			},
			Step: func(pc *PathCtx, s uint64, ins ssa.Instruction) uint64 {
				if call, ok := ins.(*ssa.Call); ok && callsFn(call, pushAddr) {
					// argument: convert(*fb)
					a := call.Call.Args[1]
					for {
						if cv, ok := a.(*ssa.Convert); ok {
							a = cv.X
							continue
						}
						if ct, ok := a.(*ssa.ChangeType); ok {
							a = ct.X
							continue
						}
						break
					}
					if u, ok := a.(*ssa.UnOp); ok && u.Op == token.MUL && isFallbackPtr(u.X) {
						if i, ok := idx[u.X]; ok {
							s |= 1 << (2*i + 1)
						}
					}
				}
				if ins == e.ins {
					good := false
					for _, i := range idx {
						if s&(1<<(2*i)) != 0 && s&(1<<(2*i+1)) != 0 {
							good = true
						}
					}
					if !good {
						okAll = false
						trail = pc.Trail()
					}
				}
				return s
			},
		}
		c.RunPaths(fn, 0, pr)
		if !okAll {
			// (B) a helper that receives the fallback account by value: it pushes that account before emitting, and
			// every call site passes `*fb` on a path that established `fb != nil`
			if why := takeAlwaysHelperOK(c, fn, e.ins, fbT, pushAddr, isFallbackPtr); why == "" {
				c.ok(rule, key, e.ins.Pos(), "emitted by a helper for the fallback account it is given (pushed first); every call site passes a non-nil fallback")
				continue
			}
		}
		if okAll {
			c.ok(rule, key, e.ins.Pos(), "emitted only under `fallback != nil`, after pushing that fallback's address")
		} else {
			c.add(rule, key, e.ins.Pos(), Violated, "OP_TAKE_ALWAYS (withdraw without any balance test) is emitted on a path that has not established a non-nil fallback account and pushed its address: an ordinary source can be overdrawn", trail...)
		}
	}
	if n == 0 {
		c.undecided(rule, "floor:take-always-emissions", token.NoPos, "the compiler never emits OP_TAKE_ALWAYS: @world / unbounded overdraft sources cannot work, or the emission moved")
	}
	// definitions of a non-nil fallback
	nDef := 0
	for _, fn := range c.FuncsIn(pkgCompiler) {
		for _, b := range fn.Blocks {
			for _, ins := range b.Instrs {
				a, ok := ins.(*ssa.Alloc)
				if !ok || !types.Identical(a.Type().(*types.Pointer).Elem(), fbT) {
					continue
				}
				nDef++
				okG := true
				var trail []string
				pr := &PathRule{
					Edge: func(pc *PathCtx, s uint64, from *ssa.BasicBlock, si int) (uint64, bool) {
						for _, f := range pc.edgeFacts(from, si) {
							if call, ok := f.X.(*ssa.Call); ok && callsFn(call, isWorld) {
								if bv, isB := constBool(f.Y); isB && bv == f.Eq {
									s |= 1
								}
							}
							if ex, ok := f.X.(*ssa.Extract); ok && ex.Index == 1 {
								if ta, ok := ex.Tuple.(*ssa.TypeAssert); ok && strings.Contains(types.TypeString(ta.AssertedType, nil), "SrcAccountOverdraftUnboundedContext") {
									if bv, isB := constBool(f.Y); isB && bv == f.Eq {
										s |= 1
									}
								}
							}
						}
						return s, true
					},
					Step: func(pc *PathCtx, s uint64, i2 ssa.Instruction) uint64 {
						if i2 == ssa.Instruction(a) && s&1 == 0 {
							okG = false
							trail = pc.Trail()
						}
						return s
					},
				}
				c.RunPaths(fn, 0, pr)
				key := fmt.Sprintf("%s:fallback-definition#%d", fnName(fn), nDef)
				if okG {
					c.ok(rule, key, a.Pos(), "a fallback account is created only for @world or under `allowing unbounded overdraft`")
				} else {
					c.add(rule, key, a.Pos(), Violated, "a fallback account (the target of unconditional withdrawals) is created on a path that is neither the @world test nor the `allowing unbounded overdraft` clause", trail...)
				}
			}
		}
	}
	if nDef == 0 {
		c.undecided(rule, "floor:fallback-definitions", token.NoPos, "no FallbackAccount is ever created")
	}
	// VM side: withdrawAlways is called only from the OP_TAKE_ALWAYS case
	wa := c.Fn(pkgVM, "Machine.withdrawAlways")
	_, tickFD := c.FuncDecl(pkgVM, "Machine.tick")
	if wa != nil && tickFD != nil {
		// every call of withdrawAlways — directly in tick, or in a method of the machine that tick calls for the opcode
		// (`m.opTakeAlways()`) — is reached from the OP_TAKE_ALWAYS clause only
		lo, hi := opClauseRange(c, "OP_TAKE_ALWAYS")
		okVM, seen := lo.IsValid(), false
		var onlyFromClause func(fn *ssa.Function, depth int) bool
		onlyFromClause = func(fn *ssa.Function, depth int) bool {
			n := 0
			for _, ci := range c.CallersOf(fn) {
				caller := ci.Parent()
				if caller == nil || (caller.Synthetic != "" && !strings.HasPrefix(caller.Synthetic, "instance of")) {
					continue
				}
				if strings.HasSuffix(c.Fset.Position(ci.Pos()).Filename, "_test.go") {
					continue
				}
				n++
				switch {
				case origName(caller) == "tick" && fnPkgPath(origin(caller)) == pkgVM:
					if ci.Pos() < lo || ci.Pos() > hi {
						return false
					}
				case depth < 2 && fnPkgPath(origin(caller)) == pkgVM && !token.IsExported(origName(caller)) && caller.Parent() == nil:
					if !onlyFromClause(caller, depth+1) {
						return false
					}
				default:
					return false
				}
			}
			return n > 0
		}
		if okVM {
			okVM = onlyFromClause(wa, 0)
			seen = okVM || len(c.CallersOf(wa)) > 0
		}
		c.check(okVM && seen, rule, "vm:withdrawAlways-only-for-OP_TAKE_ALWAYS", wa.Pos(), "withdrawAlways is reached only from the OP_TAKE_ALWAYS case of tick", "withdrawAlways (unconditional debit) is called outside the OP_TAKE_ALWAYS case")
	}
}

func nodeText(c *Ctx, n interface {
	Pos() token.Pos
	End() token.Pos
}) string {
	pos := c.Fset.Position(n.Pos())
	end := c.Fset.Position(n.End())
	b, err := c.ReadFile(strings.TrimPrefix(strings.TrimPrefix(pos.Filename, c.Repo), "/"))
	if err != nil || pos.Offset >= len(b) || end.Offset > len(b) {
		return ""
	}
	return string(b[pos.Offset:end.Offset])
}

// ---- R01b ------------------------------------------------------------------------------------

func balancesWrites(c *Ctx) map[*ssa.Function][]ssa.Instruction {
	balF := c.Field(pkgVM, "Machine", "Balances")
	out := map[*ssa.Function][]ssa.Instruction{}
	if balF == nil {
		return out
	}
	for _, fn := range c.RepoFuncs() {
		derived := map[ssa.Value]bool{}
		changed := true
		for changed {
			changed = false
			for _, b := range fn.Blocks {
				for _, ins := range b.Instrs {
					v, ok := ins.(ssa.Value)
					if !ok || derived[v] {
						continue
					}
					mark := false
					switch x := v.(type) {
					case *ssa.UnOp:
						if _, isBal := fieldRead(x, balF); isBal {
							mark = true
						}
					case *ssa.Lookup:
						mark = derived[x.X]
					case *ssa.Extract:
						mark = derived[x.Tuple]
					case *ssa.Phi:
						for _, e := range x.Edges {
							if derived[e] {
								mark = true
							}
						}
					}
					if mark {
						derived[v] = true
						changed = true
					}
				}
			}
		}
		for _, b := range fn.Blocks {
			for _, ins := range b.Instrs {
				switch x := ins.(type) {
				case *ssa.MapUpdate:
					if derived[x.Map] {
						out[fn] = append(out[fn], ins)
					}
				case *ssa.Store:
					if _, _, ok := storeToField(ins, balF); ok {
						out[fn] = append(out[fn], ins)
					}
				case *ssa.Call:
					if bi, ok := x.Call.Value.(*ssa.Builtin); ok && bi.Name() == "delete" && derived[x.Call.Args[0]] {
						out[fn] = append(out[fn], ins)
					}
				}
			}
		}
	}
	return out
}

func ruleR01b(c *Ctx) {
	const rule = "R01b"
	owners := map[string]string{
		"ResolveBalances": "loads the balances the program declared as needed",
		"withdrawAll":     "debits what it hands out (capped)",
		"withdrawAlways":  "debits what it hands out (uncapped, fallback accounts only)",
		"credit":          "credits a destination",
		"repay":           "returns unused funding",
		"tick":            "OP_SAVE reduces what later sends may take",
		"NewMachine":      "initialises",
	}
	w := balancesWrites(c)
	var fns []*ssa.Function
	for fn := range w {
		fns = append(fns, fn)
	}
	sort.Slice(fns, func(i, j int) bool { return fnName(fns[i]) < fnName(fns[j]) })
	// inside tick only the OP_SAVE clause owns the balances
	var saveLo, saveHi token.Pos
	if pp, fd := c.FuncDecl(pkgVM, "Machine.tick"); fd != nil {
		for _, sw := range switchesIn(fd.Body) {
			for _, cl := range clausesOf(sw.Body) {
				for _, e := range cl.Exprs {
					if k := constObj(pp, e); k != nil && k.Name() == "OP_SAVE" && len(cl.Body) > 0 {
						saveLo, saveHi = cl.Pos, cl.Body[len(cl.Body)-1].End()
					}
				}
			}
		}
	}
	// a helper of an owner: an unexported function of the package that only owners (or such helpers) call — inside
	// tick only from the OP_SAVE clause. What it does to the balance is decided with its callers (R01f evaluates it
	// as part of the owner's paths).
	var ownerHelper func(fn *ssa.Function, depth int) (bool, string)
	ownerHelper = func(fn *ssa.Function, depth int) (bool, string) {
		if depth > 2 || fnPkgPath(origin(fn)) != pkgVM || token.IsExported(origName(fn)) || fn.Parent() != nil {
			return false, ""
		}
		var callers []string
		n := 0
		for _, site := range c.CallersOf(fn) {
			p := site.Parent()
			if p == nil || (p.Synthetic != "" && !strings.HasPrefix(p.Synthetic, "instance of")) {
				continue
			}
			if strings.HasSuffix(c.Fset.Position(site.Pos()).Filename, "_test.go") {
				continue
			}
			n++
			pn := origName(p)
			if _, isOwner := owners[pn]; isOwner && fnPkgPath(origin(p)) == pkgVM && pn != "NewMachine" {
				if pn == "tick" && (site.Pos() < saveLo || site.Pos() > saveHi) {
					return false, ""
				}
				callers = append(callers, pn)
				continue
			}
			if ok, _ := ownerHelper(p, depth+1); ok {
				callers = append(callers, pn)
				continue
			}
			return false, ""
		}
		if n == 0 {
			return false, ""
		}
		sort.Strings(callers)
		return true, strings.Join(dedupStrings(callers), ", ")
	}
	for _, fn := range fns {
		name := origName(fn)
		why, isOwner := owners[name]
		isOwner = isOwner && fnPkgPath(fn) == pkgVM
		if !isOwner {
			if ok, by := ownerHelper(fn, 0); ok {
				c.ok(rule, fnName(fn)+":writes-Balances", w[fn][0].Pos(), "helper called only by the owners "+by+": its effect on the balance is decided with them (R01f)")
				continue
			}
		}
		if isOwner && name == "tick" {
			for _, ins := range w[fn] {
				if ins.Pos().IsValid() && (ins.Pos() < saveLo || ins.Pos() > saveHi) {
					c.bad(rule, fnName(fn)+":writes-Balances-outside-OP_SAVE", ins.Pos(), "an opcode handler other than OP_SAVE writes Machine.Balances directly (withdrawals and credits go through withdrawAll/withdrawAlways/credit/repay)")
				}
			}
		}
		c.check(isOwner, rule, fnName(fn)+":writes-Balances", w[fn][0].Pos(), "owner of Machine.Balances: "+why, "Machine.Balances is written by "+fnName(fn)+", which is not one of its owners: balances tracked during execution no longer reflect withdrawals and credits only")
	}
	if len(fns) < 5 {
		c.undecided(rule, "floor:balance-writers", token.NoPos, fmt.Sprintf("only %d functions write Machine.Balances", len(fns)))
	}
}

// ---- R01c ------------------------------------------------------------------------------------

var bigMutators = map[string]bool{"Add": true, "Sub": true, "Mul": true, "Neg": true, "Set": true, "SetInt64": true, "SetUint64": true, "SetString": true, "SetBytes": true, "SetBit": true,
	"Div": true, "Quo": true, "Rem": true, "Mod": true, "DivMod": true, "QuoRem": true, "Abs": true, "Exp": true, "Lsh": true, "Rsh": true, "And": true, "Or": true, "Xor": true, "Not": true, "Sqrt": true, "GCD": true,
	"UnmarshalJSON": true, "UnmarshalText": true, "GobDecode": true, "Scan": true, "SetFrac": true, "SetFloat64": true, "Inv": true}

func ruleR01c(c *Ctx, rule string) {
	n := 0
	for _, fn := range c.RepoFuncs() {
		pk := fnPkgPath(fn)
		if !strings.HasPrefix(pk, modPath+"/internal/machine") {
			continue
		}
		if strings.HasPrefix(pk, modPath+"/internal/machine/script/parser") {
			continue
		}
		for _, b := range fn.Blocks {
			for _, ins := range b.Instrs {
				call, ok := ins.(*ssa.Call)
				if !ok {
					continue
				}
				name := calleeFullName(call)
				var m string
				switch {
				case strings.HasPrefix(name, "(*math/big.Int)."):
					m = strings.TrimPrefix(name, "(*math/big.Int).")
				case strings.HasPrefix(name, "(*math/big.Rat)."):
					m = strings.TrimPrefix(name, "(*math/big.Rat).")
				default:
					continue
				}
				if !bigMutators[m] {
					continue
				}
				n++
				recv := call.Call.Args[0]
				fresh, why := freshBig(recv, 0)
				// decoding into the receiver of an Unmarshal*/Scan method is the method's purpose
				if !fresh && (strings.HasPrefix(origName(fn), "Unmarshal") || origName(fn) == "Scan") && paramIndex(rootBigRecv(recv)) == 0 {
					fresh, why = true, "decoder writes its own receiver"
				}
				key := fmt.Sprintf("%s:%s-on-fresh-receiver", fnName(fn), m)
				if fresh {
					c.ok(rule, key, call.Pos(), "receiver is freshly allocated ("+why+")")
				} else {
					c.bad(rule, key, call.Pos(), "big."+m+" writes into a receiver that is not freshly allocated ("+why+"): a shared amount (machine.Zero, a cached program's constant, a stored balance) is modified in place and every later execution sees the corrupted value")
				}
			}
		}
	}
	c.NSites += n
	if n < 6 {
		c.undecided(rule, "floor:big-arithmetic-sites", token.NoPos, fmt.Sprintf("only %d mutating big-number calls found in the machine packages", n))
	}
}

func rootBigRecv(v ssa.Value) ssa.Value {
	for i := 0; i < 6; i++ {
		switch x := v.(type) {
		case *ssa.ChangeType:
			v = x.X
		case *ssa.Convert:
			v = x.X
		case *ssa.Call:
			// a conversion helper (`func (a *MonetaryInt) bigInt() *big.Int { return (*big.Int)(a) }`)
			g := staticCallee(x)
			k := -1
			if g != nil {
				k = passThroughParam(g)
			}
			if k < 0 || k >= len(x.Call.Args) {
				return v
			}
			v = x.Call.Args[k]
		default:
			return v
		}
	}
	return v
}

// passThroughParam: the index of the parameter every return of fn is a mere conversion of, or -1.
func passThroughParam(fn *ssa.Function) int {
	if len(fn.Blocks) == 0 || !inRepo(fnPkgPath(origin(fn))) {
		return -1
	}
	idx := -1
	for _, b := range fn.Blocks {
		ret, ok := b.Instrs[len(b.Instrs)-1].(*ssa.Return)
		if !ok {
			continue
		}
		if len(ret.Results) != 1 {
			return -1
		}
		v := ret.Results[0]
		for i := 0; i < 4; i++ {
			if ct, ok := v.(*ssa.ChangeType); ok {
				v = ct.X
			} else if cv, ok := v.(*ssa.Convert); ok {
				v = cv.X
			}
		}
		p, ok := v.(*ssa.Parameter)
		if !ok {
			return -1
		}
		k := paramIndex(p)
		if idx >= 0 && idx != k {
			return -1
		}
		idx = k
	}
	return idx
}

func freshBig(v ssa.Value, depth int) (bool, string) {
	if depth > 8 {
		return false, "provenance too deep"
	}
	switch x := v.(type) {
	case *ssa.Alloc:
		return true, "&big.Int{}"
	case *ssa.ChangeType:
		return freshBig(x.X, depth+1)
	case *ssa.Convert:
		return freshBig(x.X, depth+1)
	case *ssa.Call:
		n := calleeFullName(x)
		switch n {
		case "math/big.NewInt", "math/big.NewRat", "math/big.NewFloat":
			return true, n
		}
		if bi, ok := x.Call.Value.(*ssa.Builtin); ok && bi.Name() == "new" {
			return true, "new"
		}
		// a mutator returns its receiver: fresh iff the receiver was
		if strings.HasPrefix(n, "(*math/big.") && len(x.Call.Args) > 0 {
			m := n[strings.LastIndex(n, ".")+1:]
			if bigMutators[m] {
				return freshBig(x.Call.Args[0], depth+1)
			}
		}
		if g := staticCallee(x); g != nil {
			if k := passThroughParam(g); k >= 0 && k < len(x.Call.Args) {
				return freshBig(x.Call.Args[k], depth+1)
			}
			if ok, why := freshResult(g, 0, depth+1); ok {
				return true, why
			}
		}
		return false, "result of " + n
	case *ssa.Phi:
		for _, e := range x.Edges {
			if ok, why := freshBig(e, depth+1); !ok {
				return false, why
			}
		}
		return true, "all incoming values fresh"
	case *ssa.Parameter:
		return false, "parameter " + x.Name()
	case *ssa.UnOp:
		if x.Op == token.MUL {
			if s := singleStore(x.X); s != nil {
				return freshBig(s, depth+1)
			}
			if g, ok := x.X.(*ssa.Global); ok {
				return false, "package variable " + g.Name()
			}
			if f, _ := anyFieldRead(x); f != nil {
				return false, "field " + f.Name()
			}
		}
		return false, "loaded value"
	case *ssa.Extract:
		// (recv, ok) := new(big.Rat).SetString(…): the first result of a mutator is its receiver
		if call, ok := x.Tuple.(*ssa.Call); ok && x.Index == 0 {
			n := calleeFullName(call)
			if strings.HasPrefix(n, "(*math/big.") && len(call.Call.Args) > 0 && bigMutators[n[strings.LastIndex(n, ".")+1:]] {
				return freshBig(call.Call.Args[0], depth+1)
			}
			if g := staticCallee(call); g != nil {
				if ok, why := freshResult(g, x.Index, depth+1); ok {
					return true, why
				}
			}
		}
		return false, "call result"
	}
	return false, fmt.Sprintf("%T", v)
}

// freshResult: every return of the repository function g yields, at result index idx, a freshly allocated value (or nil).
func freshResult(g *ssa.Function, idx int, depth int) (bool, string) {
	if len(g.Blocks) == 0 || !inRepo(fnPkgPath(origin(g))) || depth > 8 {
		return false, "result of " + g.Name()
	}
	n := 0
	for _, b := range g.Blocks {
		ret, ok := b.Instrs[len(b.Instrs)-1].(*ssa.Return)
		if !ok || idx >= len(ret.Results) {
			continue
		}
		if isNilConst(ret.Results[idx]) {
			continue
		}
		n++
		if ok, why := freshBig(ret.Results[idx], depth+1); !ok {
			return false, "result of " + g.Name() + ": " + why
		}
	}
	return n > 0, "every return of " + g.Name() + " is freshly allocated"
}

// ---- R01d / R01e ---------------------------------------------------------------------------------

func ruleR01de(c *Ctx) {
	run := c.MustFn("R01d", pkgVM, "Run")
	exec := c.MustFn("R01d", pkgVM, "Machine.Execute")
	tick := c.MustFn("R01e", pkgVM, "Machine.tick")
	if run == nil || exec == nil || tick == nil {
		return
	}
	// Run: on the error edge of Execute the result is nil
	okRun, seen := true, false
	pr := &PathRule{
		Edge: func(pc *PathCtx, s uint64, from *ssa.BasicBlock, si int) (uint64, bool) {
			for _, f := range pc.edgeFacts(from, si) {
				if call, ok := f.X.(*ssa.Call); ok && callsFn(call, exec) && isNilConst(f.Y) && !f.Eq {
					s |= 1
				}
			}
			return s, true
		},
		Exit: func(pc *PathCtx, s uint64, ins ssa.Instruction) {
			if ret, ok := ins.(*ssa.Return); ok && s&1 != 0 {
				seen = true
				if !isNilConst(ret.Results[0]) {
					okRun = false
				}
			}
		},
	}
	c.RunPaths(run, 0, pr)
	c.check(okRun && seen, "R01d", "vm.Run:no-result-when-execution-fails", run.Pos(), "on the error edge of Execute, Run returns a nil result", "vm.Run returns postings although Execute failed: a rejected transaction yields postings")
	// tick: OP_TAKE: error of Funding.Take -> NewErrInsufficientFund and finished
	take := c.methodObj(pkgMachine, "Funding", "Take")
	takeMax := c.methodObj(pkgMachine, "Funding", "TakeMax")
	insuff := c.Fn(pkgMachine, "NewErrInsufficientFund")
	okTake, seenTake := true, false
	okMax, seenMax := true, false
	var takeCall, maxCall *ssa.Call
	// the two calls sit in tick, or in a method of the machine that tick calls for the opcode (`m.takeMax()`)
	helpers := map[*ssa.Function]bool{}
	var scan func(fn *ssa.Function, depth int) bool
	scan = func(fn *ssa.Function, depth int) bool {
		found := false
		allCalls(fn, func(ci ssa.CallInstruction) {
			call, ok := ci.(*ssa.Call)
			if !ok {
				return
			}
			if isCallTo(call, take) {
				takeCall = call
				found = true
			}
			if isCallTo(call, takeMax) {
				maxCall = call
				found = true
			}
			if g := staticCallee(call); g != nil && depth < 2 && fnPkgPath(origin(g)) == pkgVM && len(g.Blocks) > 0 && g != fn && !helpers[g] {
				if scan(g, depth+1) {
					helpers[g] = true
					found = true
				}
			}
		})
		return found
	}
	scan(tick, 0)
	if takeCall == nil || maxCall == nil {
		c.undecided("R01d", "tick:Take/TakeMax-call-sites", tick.Pos(), "tick does not call Funding.Take / Funding.TakeMax")
		return
	}
	pr2 := &PathRule{
		Edge: func(pc *PathCtx, s uint64, from *ssa.BasicBlock, si int) (uint64, bool) {
			for _, f := range pc.edgeFacts(from, si) {
				if ex, ok := f.X.(*ssa.Extract); ok && ex.Tuple == ssa.Value(takeCall) && isNilConst(f.Y) && !f.Eq {
					s |= 1
				}
				if call, ok := f.X.(*ssa.Call); ok && calleeFullName(call) == "(*"+pkgMachine+".MonetaryInt).Ltz" {
					if bv, isB := constBool(f.Y); isB && (bv == f.Eq) == false {
						s |= 4
					} else if isB {
						s |= 8
					}
				}
			}
			return s, true
		},
		Step: func(pc *PathCtx, s uint64, ins ssa.Instruction) uint64 {
			if call, ok := ins.(*ssa.Call); ok {
				if callsFn(call, insuff) {
					s |= 2
				}
				if call == maxCall {
					seenMax = true
					if s&4 == 0 {
						okMax = false
					}
				}
			}
			return s
		},
		Inline: func(call ssa.CallInstruction) []*ssa.Function {
			if g := staticCallee(call); g != nil && helpers[g] {
				return []*ssa.Function{g}
			}
			return nil
		},
		Exit: func(pc *PathCtx, s uint64, ins ssa.Instruction) {
			ret, ok := ins.(*ssa.Return)
			if !ok || s&1 == 0 || pc.parent != nil {
				return
			}
			seenTake = true
			fin, isB := constBool(ret.Results[0])
			if s&2 == 0 || !isB || !fin || isNilConst(ret.Results[1]) {
				okTake = false
			}
		},
	}
	c.RunPaths(tick, 0, pr2)
	c.check(okTake && seenTake, "R01d", "tick:short-funding-is-insufficient-funds", takeCall.Pos(), "on the error edge of Funding.Take, tick stops with ErrInsufficientFund", "when the assembled funding cannot cover the amount, tick does not stop with an insufficient-funds error")
	c.check(okMax && seenMax, "R01e", "tick:negative-amount-refused-before-TakeMax", maxCall.Pos(), "Funding.TakeMax is reached only on the false edge of Amount.Ltz()", "OP_TAKE_MAX takes a possibly negative amount: a negative cap turns a withdrawal into a credit")
}

// ---- R08a ------------------------------------------------------------------------------------

func ruleR08a(c *Ctx) {
	const rule = "R08a"
	progT := c.Named(pkgProgram, "Program")
	if progT == nil {
		c.undecided(rule, "anchor:program.Program", token.NoPos, "not found")
		return
	}
	var shared []*types.Var
	st := progT.Underlying().(*types.Struct)
	for i := 0; i < st.NumFields(); i++ {
		shared = append(shared, st.Field(i))
	}
	if f := c.Field(pkgVM, "Machine", "UnresolvedResources"); f != nil {
		shared = append(shared, f)
	}
	isShared := func(f *types.Var) bool {
		for _, s := range shared {
			if sameField(f, s) {
				return true
			}
		}
		return false
	}
	nFns, nDerived := 0, 0
	for _, fn := range c.RepoFuncs() {
		pk := fnPkgPath(fn)
		if pk == pkgCompiler || strings.HasPrefix(pk, modPath+"/internal/machine/script/parser") {
			continue
		}
		derived := map[ssa.Value]bool{}
		changed := true
		for changed {
			changed = false
			for _, b := range fn.Blocks {
				for _, ins := range b.Instrs {
					v, ok := ins.(ssa.Value)
					if !ok || derived[v] {
						continue
					}
					mark := false
					switch x := v.(type) {
					case *ssa.UnOp:
						if f, _ := anyFieldRead(x); f != nil && isShared(f) {
							mark = true
						}
						if x.Op == token.MUL && derived[x.X] {
							// element loaded through a derived address: a copy unless it is itself a reference type
							switch x.Type().Underlying().(type) {
							case *types.Slice, *types.Map, *types.Pointer:
								mark = true
							}
						}
					case *ssa.FieldAddr:
						if isShared(fieldOfAddr(x)) {
							mark = true
						}
					case *ssa.Field:
						if isShared(fieldOfField(x)) {
							mark = true
						}
					case *ssa.Slice:
						mark = derived[x.X]
					case *ssa.IndexAddr:
						mark = derived[x.X]
					case *ssa.Lookup:
						if derived[x.X] {
							switch x.Type().Underlying().(type) {
							case *types.Slice, *types.Map, *types.Pointer, *types.Tuple:
								mark = true
							}
						}
					case *ssa.Extract:
						if derived[x.Tuple] {
							switch x.Type().Underlying().(type) {
							case *types.Slice, *types.Map, *types.Pointer:
								mark = true
							}
						}
					case *ssa.Phi:
						for _, e := range x.Edges {
							if derived[e] {
								mark = true
							}
						}
					case *ssa.ChangeType:
						mark = derived[x.X]
					}
					if mark {
						derived[v] = true
						changed = true
					}
				}
			}
		}
		if len(derived) == 0 {
			continue
		}
		nFns++
		nDerived += len(derived)
		c.seeFn(fn)
		for _, b := range fn.Blocks {
			for _, ins := range b.Instrs {
				what := ""
				switch x := ins.(type) {
				case *ssa.Store:
					// store through an address derived from a shared slice/map (not the initialising store of a fresh struct)
					if ia, ok := x.Addr.(*ssa.IndexAddr); ok && derived[ia.X] {
						what = "element store"
					}
					if fa, ok := x.Addr.(*ssa.FieldAddr); ok && isShared(fieldOfAddr(fa)) && !freshBase(fa.X) && progT != nil && isNamed(fa.X.Type(), pkgProgram, "Program") {
						// replacing a field of a Program value that is a copy is harmless; through a pointer to the cached program it is not
						if _, viaPtr := fa.X.Type().(*types.Pointer); viaPtr && !isLocalCopy(fa.X) {
							what = "field store through *Program"
						}
					}
				case *ssa.MapUpdate:
					if derived[x.Map] {
						what = "map update"
					}
				case *ssa.Call:
					if bi, ok := x.Call.Value.(*ssa.Builtin); ok {
						switch bi.Name() {
						case "append":
							if derived[x.Call.Args[0]] {
								what = "append (may write into the shared backing array)"
							}
						case "copy", "delete", "clear":
							if derived[x.Call.Args[0]] {
								what = bi.Name()
							}
						}
					} else if n := calleeFullName(x); strings.HasPrefix(n, "sort.") || strings.HasPrefix(n, "slices.Sort") || n == "slices.Reverse" {
						for _, a := range x.Call.Args {
							if derived[strip(a)] {
								what = n
							}
						}
					}
				}
				if what != "" {
					c.bad(rule, fnName(fn)+":mutates-shared-program:"+strings.Fields(what)[0], ins.Pos(), what+" on a value derived from a compiled program outside the compiler: programs are shared by every execution served from the cache, so the next execution of the same script runs a modified program")
				}
			}
		}
	}
	c.Info["R08a_functions_touching_programs"] = nFns
	c.Info["R08a_derived_values"] = nDerived
	if nFns < 3 {
		c.undecided(rule, "floor:program-readers", token.NoPos, fmt.Sprintf("only %d functions outside the compiler read program fields", nFns))
	} else {
		c.ok(rule, "no-write-through-program-derived-values", token.NoPos, fmt.Sprintf("%d functions read compiled programs; none of the %d derived slice/map/pointer values is written", nFns, nDerived))
	}
}

func isLocalCopy(v ssa.Value) bool {
	switch x := v.(type) {
	case *ssa.Alloc:
		return true
	case *ssa.UnOp:
		if s := singleStore(x.X); s != nil {
			return isLocalCopy(s)
		}
	case *ssa.FieldAddr:
		// &m.Program where m is a *Machine: the Machine holds its own copy of the Program struct
		return isNamed(x.X.Type(), pkgVM, "Machine")
	}
	return false
}

// ---- R08b ------------------------------------------------------------------------------------

func ruleR08b(c *Ctx) {
	const rule = "R08b"
	fn := c.MustFn(rule, pkgCommand, "Compiler.Compile")
	if fn == nil {
		return
	}
	script := fn.Params[1]
	// Compile and the helpers of its package it is made of (cacheKey / lookup / compileAndStore …), as one body
	flat := flattenCalls(fn, pkgCommand, 3)
	type site struct {
		call *ssa.Call
		env  *frameEnv
	}
	var get, set, comp *site
	for _, fi := range flat {
		call, ok := fi.ins.(*ssa.Call)
		if !ok {
			continue
		}
		if call.Call.IsInvoke() {
			switch {
			case call.Call.Method.Name() == "Get" && len(call.Call.Args) == 1:
				get = &site{call, fi.env}
			case call.Call.Method.Name() == "Set" && len(call.Call.Args) == 2:
				set = &site{call, fi.env}
			}
		}
		if f := staticCallee(call); f != nil && fnPkgPath(f) == pkgCompiler && f.Name() == "Compile" {
			comp = &site{call, fi.env}
		}
	}
	if get == nil || set == nil || comp == nil {
		c.undecided(rule, "Compile:cache-calls", fn.Pos(), "cache Get/Set or compiler.Compile call not found")
		return
	}
	// the script itself, not a part of it: the parameter, possibly handed down through helper parameters
	var isWhole func(v ssa.Value, env *frameEnv, depth int) bool
	isWhole = func(v ssa.Value, env *frameEnv, depth int) bool {
		if depth > 6 {
			return false
		}
		if ct, ok := v.(*ssa.ChangeType); ok {
			return isWhole(ct.X, env, depth+1)
		}
		if v == ssa.Value(script) || stripLoadOfParamCell(v) == ssa.Value(script) {
			return true
		}
		if p, ok := v.(*ssa.Parameter); ok && env != nil && env.args != nil {
			if a, ok := env.args[p]; ok {
				return isWhole(a, env.parent, depth+1)
			}
		}
		return false
	}
	// the key is (an encoding of) a digest that was fed the whole script
	var digests func(v ssa.Value, env *frameEnv, depth int) (whole, fromDigest bool)
	digests = func(v ssa.Value, env *frameEnv, depth int) (bool, bool) {
		if depth > 8 {
			return false, false
		}
		whole, fromDigest := false, false
		for _, r := range rootsEnv(v, env, pkgCommand) {
			switch x := r.v.(type) {
			case *ssa.Call:
				name := calleeFullName(x)
				switch {
				case strings.HasSuffix(name, ".EncodeToString") || strings.HasSuffix(name, ".Sprintf") || strings.HasSuffix(name, "hex.EncodeToString"):
					for _, a := range x.Call.Args[1:] {
						for _, e := range append(variadicElems(a), a) {
							w, d := digests(e, r.env, depth+1)
							whole, fromDigest = whole || w, fromDigest || d
						}
					}
				case x.Call.IsInvoke() && x.Call.Method.Name() == "Sum":
					fromDigest = true
					// the hash was written the script
					h := x.Call.Value
					for _, b := range x.Parent().Blocks {
						for _, ins := range b.Instrs {
							if w, ok := ins.(*ssa.Call); ok && w.Call.IsInvoke() && w.Call.Method.Name() == "Write" && w.Call.Value == h {
								if cv, ok := w.Call.Args[0].(*ssa.Convert); ok && isWhole(cv.X, r.env, 0) {
									whole = true
								}
							}
						}
					}
				case strings.HasPrefix(name, "crypto/") && strings.Contains(name, ".Sum") && len(x.Call.Args) == 1:
					fromDigest = true
					if cv, ok := x.Call.Args[0].(*ssa.Convert); ok && isWhole(cv.X, r.env, 0) {
						whole = true
					}
				}
			case *ssa.Alloc:
				// digest := sha256.Sum256(…); digest[:]
				for _, ref := range *x.Referrers() {
					if st, ok := ref.(*ssa.Store); ok && st.Addr == ssa.Value(x) {
						w, d := digests(st.Val, r.env, depth+1)
						whole, fromDigest = whole || w, fromDigest || d
					}
				}
			}
		}
		return whole, fromDigest
	}
	wholeScript, fromDigest := digests(get.call.Call.Args[0], get.env, 0)
	keyRoots := func(s *site) map[ssa.Value]bool {
		out := map[ssa.Value]bool{}
		for _, r := range rootsEnv(s.call.Call.Args[0], s.env, pkgCommand) {
			out[r.v] = true
		}
		return out
	}
	gk, sk := keyRoots(get), keyRoots(set)
	sameKey := len(gk) == len(sk) && len(gk) > 0
	for v := range gk {
		if !sk[v] {
			sameKey = false
		}
	}
	c.check(wholeScript, rule, "Compile:key-digests-the-whole-script", fn.Pos(), "the digest is fed with []byte(script)", "the cache key is not a digest of the whole script text: different scripts can share a cached program")
	c.check(sameKey && fromDigest, rule, "Compile:lookup-and-store-use-the-digest-key", get.call.Pos(), "Get and Set use the same key, derived from a digest", "the cache is read and written under different keys, or the key does not derive from the digest")
	compiledArg := false
	for _, r := range rootsEnv(set.call.Call.Args[1], set.env, pkgCommand) {
		if ex, ok := r.v.(*ssa.Extract); ok && ex.Tuple == ssa.Value(comp.call) && ex.Index == 0 {
			compiledArg = true
		}
	}
	c.check(compiledArg && isWhole(comp.call.Call.Args[0], comp.env, 0), rule, "Compile:stores-the-program-of-this-script", set.call.Pos(), "the stored value is compiler.Compile(script)", "the value cached under the key is not the program compiled from this script")
}

// ---- R08c ------------------------------------------------------------------------------------

func ruleR08c(c *Ctx) {
	const rule = "R08c"
	p := c.Pkg(pkgProgram)
	if p == nil {
		c.undecided(rule, "anchor:program", token.NoPos, "package not loaded")
		return
	}
	ops := map[string]int64{}
	byVal := map[int64]string{}
	sc := p.Types.Scope()
	for _, n := range sc.Names() {
		if k, ok := sc.Lookup(n).(*types.Const); ok && strings.HasPrefix(n, "OP_") {
			v, _ := constInt64(k)
			ops[n] = v
			if o, dup := byVal[v]; dup {
				c.bad(rule, "distinct:"+n, k.Pos(), "opcode has the same value as "+o)
			}
			byVal[v] = n
		}
	}
	caseSet := func(pkg, fn string) map[string]bool {
		pp, fd := c.MustFuncDecl(rule, pkg, fn)
		out := map[string]bool{}
		if fd == nil {
			return nil
		}
		for _, sw := range switchesIn(fd.Body) {
			for _, cl := range clausesOf(sw.Body) {
				for _, e := range cl.Exprs {
					if k := constObj(pp, e); k != nil && strings.HasPrefix(k.Name(), "OP_") {
						out[k.Name()] = true
					}
				}
			}
		}
		return out
	}
	tickCases := caseSet(pkgVM, "Machine.tick")
	nameCases := caseSet(pkgProgram, "OpcodeName")
	if tickCases == nil || nameCases == nil {
		return
	}
	var names []string
	for n := range ops {
		names = append(names, n)
	}
	sort.Strings(names)
	for _, n := range names {
		c.check(tickCases[n], rule, "tick-handles:"+n, token.NoPos, "Machine.tick has a case", "opcode "+n+" has no case in Machine.tick: a program containing it stops with `invalid opcode`")
		c.check(nameCases[n], rule, "OpcodeName-handles:"+n, token.NoPos, "OpcodeName has a case", "opcode "+n+" has no name")
	}
	// emissions
	nE := 0
	for _, e := range opEmissions(c) {
		nE++
		key := fmt.Sprintf("%s:emits-known-opcode", fnName(e.fn))
		if !e.isOK {
			c.bad(rule, key, e.ins.Pos(), "the compiler emits a non-constant instruction byte")
			continue
		}
		name, ok := byVal[e.op]
		c.check(ok && tickCases[name], rule, key+":"+name, e.ins.Pos(), "emits "+name, fmt.Sprintf("the compiler emits byte %d which is not an opcode the VM handles", e.op))
	}
	if nE < 30 {
		c.undecided(rule, "floor:emissions", token.NoPos, fmt.Sprintf("only %d instruction emissions found", nE))
	}
	// operand width: ToBytes makes 2 bytes; OP_APUSH consumes 2
	toBytes := c.Fn(pkgMachine, "Address.ToBytes")
	width := int64(-1)
	if toBytes != nil {
		for _, b := range toBytes.Blocks {
			for _, ins := range b.Instrs {
				if ms, ok := ins.(*ssa.MakeSlice); ok {
					if n, ok := constInt(ms.Len); ok {
						width = n
					}
				}
				if a, ok := ins.(*ssa.Alloc); ok {
					if arr, ok := a.Type().(*types.Pointer).Elem().Underlying().(*types.Array); ok {
						width = arr.Len()
					}
				}
			}
		}
	}
	pVar := c.Field(pkgVM, "Machine", "P")
	consumed := int64(-1)
	if _, fd := c.FuncDecl(pkgVM, "Machine.tick"); fd != nil && pVar != nil {
		pp := c.Pkg(pkgVM)
		for _, sw := range switchesIn(fd.Body) {
			for _, cl := range clausesOf(sw.Body) {
				isPush := false
				for _, e := range cl.Exprs {
					if k := constObj(pp, e); k != nil && k.Name() == "OP_APUSH" {
						isPush = true
					}
				}
				if !isPush {
					continue
				}
				txt := ""
				for _, s := range cl.Body {
					txt += nodeText(c, s) + "\n"
				}
				for _, line := range strings.Split(txt, "\n") {
					line = strings.TrimSpace(line)
					if strings.HasPrefix(line, "m.P +=") {
						var n int64
						fmt.Sscanf(strings.TrimPrefix(line, "m.P +="), "%d", &n)
						consumed = n
					}
				}
			}
		}
	}
	c.check(width > 0 && width == consumed, rule, "operand-width:OP_APUSH", token.NoPos, fmt.Sprintf("the compiler writes %d operand bytes, the VM skips %d", width, consumed), fmt.Sprintf("the compiler writes %d operand bytes after OP_APUSH but the VM skips %d: every following instruction is decoded at the wrong offset", width, consumed))
}

// ---- R08d ------------------------------------------------------------------------------------

var uncheckedTypeAllowed = map[string][2]interface{}{
	"VisitMonetary":       {2, "the same expression is visited with push=false and its type compared earlier in the function"},
	"VisitSetTxMeta":      {1, "the metadata value is polymorphic (OP_TX_META accepts any value)"},
	"VisitSetAccountMeta": {1, "the metadata value is polymorphic (OP_ACCOUNT_META accepts any value)"},
	"VisitPrint":          {1, "OP_PRINT accepts any value"},
}

func ruleR08d(c *Ctx, rule string) {
	visitors := map[*ssa.Function]bool{}
	for _, n := range []string{"parseVisitor.VisitExpr", "parseVisitor.VisitVariable", "parseVisitor.VisitLit"} {
		if f := c.Fn(pkgCompiler, n); f != nil {
			visitors[f] = true
		}
	}
	if len(visitors) < 3 {
		c.undecided(rule, "anchor:compiler.Visit{Expr,Variable,Lit}", token.NoPos, "not found")
		return
	}
	typeT := c.Named(pkgMachine, "Type")
	nSites := 0
	for _, fn := range c.FuncsIn(pkgCompiler) {
		discarded := 0
		var firstDiscard token.Pos
		allCalls(fn, func(ci ssa.CallInstruction) {
			call, ok := ci.(*ssa.Call)
			if !ok {
				return
			}
			f := staticCallee(call)
			if f == nil || !visitors[f] {
				return
			}
			nSites++
			// uses of result #0
			used := false
			// the whole tuple returned as is (VisitExpr delegating to VisitLit/VisitVariable)
			for _, r := range *call.Referrers() {
				if _, isRet := r.(*ssa.Return); isRet {
					used = true
				}
				if ex, ok := r.(*ssa.Extract); ok && ex.Index == 0 {
					for _, rr := range *ex.Referrers() {
						switch u := rr.(type) {
						case *ssa.BinOp:
							if u.Op == token.EQL || u.Op == token.NEQ {
								used = true
							}
						case *ssa.Return, *ssa.Store, *ssa.Phi, *ssa.Call, *ssa.MakeInterface:
							used = true
						}
					}
				}
			}
			_ = typeT
			if !used {
				discarded++
				if firstDiscard == token.NoPos {
					firstDiscard = call.Pos()
				}
			}
		})
		if discarded == 0 {
			continue
		}
		name := origName(fn)
		allow, ok := uncheckedTypeAllowed[name]
		key := fnName(fn) + ":expression-type-checked"
		if ok && discarded <= allow[0].(int) {
			c.ok(rule, key, firstDiscard, fmt.Sprintf("%d unchecked visit(s), frozen exception: %s", discarded, allow[1]))
		} else {
			c.bad(rule, key, firstDiscard, fmt.Sprintf("%s discards the static type of %d visited expression(s) without comparing it: an ill-typed program is compiled and the VM's typed pop fails at run time (panic) instead of a compile error", fnName(fn), discarded))
		}
	}
	// visits made through a typed-visit helper (`visitExprOfType(node, push, T, …)`) are checked by the helper
	nTyped := 0
	for g, tv := range c.typedVisitHelpers() {
		if tv.ok {
			nTyped += len(c.CallersOf(g))
		}
	}
	if nSites+nTyped < 15 {
		c.undecided(rule, "floor:visit-call-sites", token.NoPos, fmt.Sprintf("only %d Visit{Expr,Variable,Lit} call sites found", nSites))
	} else {
		c.ok(rule, "all-other-visit-sites-check-the-type", token.NoPos, fmt.Sprintf("%d call sites inspected", nSites))
	}
}

// ---- C12 -------------------------------------------------------------------------------------

func ruleR12a(c *Ctx) {
	const rule = "R12a"
	balF := c.MustField(rule, pkgVM, "Machine", "Balances")
	if balF == nil {
		return
	}
	exceptions := map[string]string{
		"repay":           "funding parts originate from withdrawAll/withdrawAlways, which only produce parts for accounts present in Balances; @world is skipped",
		"ResolveBalances": "creates the per-account entry before writing into it",
	}
	n := 0
	for _, fn := range c.FuncsIn(pkgVM) {
		for _, b := range fn.Blocks {
			for _, ins := range b.Instrs {
				mu, ok := ins.(*ssa.MapUpdate)
				if !ok {
					continue
				}
				// inner map obtained from Balances[...]
				inner := mu.Map
				var outer *ssa.Lookup
				checked := false
				switch x := inner.(type) {
				case *ssa.Lookup:
					outer = x
				case *ssa.Extract:
					if lk, ok := x.Tuple.(*ssa.Lookup); ok && lk.CommaOk {
						outer = lk
						// dominated by ok == true?
						checked = guardedByExtractTrue(c, fn, mu, lk)
					}
				}
				if outer == nil {
					continue
				}
				if _, isBal := fieldRead(outer.X, balF); !isBal {
					continue
				}
				n++
				name := origName(fn)
				key := fnName(fn) + ":balance-entry-exists-before-write"
				if !checked {
					// an element of the same per-account map was found by a comma-ok lookup on every path
					// to the write (`v, ok := m.Balances[a][k]` with ok true): the inner map is not nil
					checked = innerEntryFound(c, fn, mu, outer, balF)
				}
				viaCallers := ""
				if !checked && exceptions[name] == "" {
					viaCallers = balanceEntryFoundByCallers(c, fn, outer, balF)
				}
				switch {
				case checked:
					c.ok(rule, key, mu.Pos(), "the per-account map comes from a comma-ok lookup and is written only on its ok edge")
				case viaCallers != "":
					c.ok(rule, key, mu.Pos(), "every caller ("+viaCallers+") reaches this helper only behind the ok edge of a comma-ok lookup of the same account's entry")
				case exceptions[name] != "":
					c.ok(rule, key, mu.Pos(), "frozen exception: "+exceptions[name])
				default:
					c.bad(rule, key, mu.Pos(), "m.Balances[account][…] is written without checking that the account is tracked: for an account the program did not declare, the inner map is nil and the VM panics (assignment to entry in nil map)")
				}
			}
		}
	}
	if n < 4 {
		c.undecided(rule, "floor:balance-writes", token.NoPos, fmt.Sprintf("only %d writes into per-account balance maps found", n))
	}
}

// innerEntryFound: the write `m.Balances[a][k] = v` is reached only through the ok edge of a comma-ok lookup
// `m.Balances[a][k']` on the same account value.
func innerEntryFound(c *Ctx, fn *ssa.Function, mu *ssa.MapUpdate, outer *ssa.Lookup, balF *types.Var) bool {
	for _, b := range fn.Blocks {
		for _, ins := range b.Instrs {
			lk, ok := ins.(*ssa.Lookup)
			if !ok || !lk.CommaOk {
				continue
			}
			var in *ssa.Lookup
			switch x := lk.X.(type) {
			case *ssa.Lookup:
				in = x
			case *ssa.Extract:
				in, _ = x.Tuple.(*ssa.Lookup)
			}
			if in == nil || descr(in.Index, 0) != descr(outer.Index, 0) {
				continue
			}
			if _, isBal := fieldRead(in.X, balF); !isBal {
				continue
			}
			if guardedByExtractTrue(c, fn, mu, lk) {
				return true
			}
		}
	}
	return false
}

// balanceEntryFoundByCallers: the write sits in an unexported helper and indexes Balances with one of its parameters;
// every call of the helper (in the package) is reached only through the ok edge of a comma-ok lookup
// `m.Balances[a][k]` — possibly made inside another helper that the caller's path goes through — on the account the
// call passes. Returns the callers' names, or "".
func balanceEntryFoundByCallers(c *Ctx, fn *ssa.Function, outer *ssa.Lookup, balF *types.Var) string {
	if token.IsExported(origName(fn)) || fn.Parent() != nil {
		return ""
	}
	prm, ok := stripLoadOfParamCell(outer.Index).(*ssa.Parameter)
	if !ok || prm.Parent() != fn {
		return ""
	}
	idx := paramIndex(prm)
	var names []string
	n := 0
	for _, site := range c.CallersOf(fn) {
		caller := site.Parent()
		if caller == nil || (caller.Synthetic != "" && !strings.HasPrefix(caller.Synthetic, "instance of")) {
			continue
		}
		if strings.HasSuffix(c.Fset.Position(site.Pos()).Filename, "_test.go") {
			continue
		}
		if idx < 0 || idx >= len(site.Common().Args) || fnPkgPath(origin(caller)) != pkgVM {
			return ""
		}
		n++
		want := descr(site.Common().Args[idx], 0)
		okAll, seen := true, false
		pr := &PathRule{
			Inline: func(call ssa.CallInstruction) []*ssa.Function {
				if call == site {
					return nil
				}
				if g := staticCallee(call); g != nil && fnPkgPath(origin(g)) == pkgVM && !token.IsExported(origName(g)) && g.Signature.Recv() != nil && len(g.Blocks) > 0 {
					return []*ssa.Function{g}
				}
				return nil
			},
			MaxDepth: 3,
			Edge: func(pc *PathCtx, s uint64, from *ssa.BasicBlock, si int) (uint64, bool) {
				for _, f := range pc.edgeFacts(from, si) {
					ex, isE := f.X.(*ssa.Extract)
					if !isE || ex.Index != 1 {
						continue
					}
					lk, isL := ex.Tuple.(*ssa.Lookup)
					if !isL || !lk.CommaOk {
						continue
					}
					if b, isB := constBool(f.Y); !isB || b != f.Eq {
						continue
					}
					// m.Balances[a][k] (inner entry found) or m.Balances[a] (per-account map found)
					var in *ssa.Lookup
					switch x := lk.X.(type) {
					case *ssa.Lookup:
						in = x
					case *ssa.Extract:
						in, _ = x.Tuple.(*ssa.Lookup)
					case *ssa.UnOp:
						if _, isBal := fieldRead(x, balF); isBal {
							in = lk
						}
					}
					if in == nil {
						continue
					}
					if _, isBal := fieldRead(in.X, balF); !isBal {
						continue
					}
					if descr(pc.Resolve(in.Index), 0) == want {
						s |= 1
					}
				}
				return s, true
			},
			Step: func(pc *PathCtx, s uint64, ins ssa.Instruction) uint64 {
				if ins == site.(ssa.Instruction) && pc.parent == nil {
					seen = true
					if s&1 == 0 {
						okAll = false
					}
				}
				return s
			},
		}
		c.RunPaths(caller, 0, pr)
		if !okAll || !seen {
			return ""
		}
		names = append(names, origName(caller))
	}
	if n == 0 {
		return ""
	}
	sort.Strings(names)
	return strings.Join(dedupStrings(names), ", ")
}

func guardedByExtractTrue(c *Ctx, fn *ssa.Function, target ssa.Instruction, lk *ssa.Lookup) bool {
	ok, seen := true, false
	pr := &PathRule{
		Edge: func(pc *PathCtx, s uint64, from *ssa.BasicBlock, si int) (uint64, bool) {
			for _, f := range pc.edgeFacts(from, si) {
				if ex, isE := f.X.(*ssa.Extract); isE && ex.Tuple == ssa.Value(lk) && ex.Index == 1 {
					if b, isB := constBool(f.Y); isB && b == f.Eq {
						s |= 1
					}
				}
			}
			return s, true
		},
		Step: func(pc *PathCtx, s uint64, ins ssa.Instruction) uint64 {
			if ins == ssa.Instruction(lk) {
				s &^= 1
			}
			if ins == target {
				seen = true
				if s&1 == 0 {
					ok = false
				}
			}
			return s
		},
	}
	c.RunPaths(fn, 0, pr)
	return ok && seen
}

func ruleR12b(c *Ctx) {
	const rule = "R12b"
	reg := c.MustField(rule, pkgVM, "Machine", "UnresolvedResourceBalances")
	resF := c.Field(pkgVM, "Machine", "Resources")
	if reg == nil || resF == nil {
		return
	}
	n := 0
	for _, fn := range c.FuncsIn(pkgVM) {
		for _, b := range fn.Blocks {
			for _, ins := range b.Instrs {
				mu, ok := ins.(*ssa.MapUpdate)
				if !ok {
					continue
				}
				if _, isReg := fieldRead(mu.Map, reg); !isReg {
					continue
				}
				n++
				// key: the resource index = len(m.Resources)
				injective := false
				if call, ok := mu.Key.(*ssa.Call); ok {
					if bi, ok := call.Call.Value.(*ssa.Builtin); ok && bi.Name() == "len" {
						if _, isRes := fieldRead(call.Call.Args[0], resF); isRes {
							injective = true
						}
					}
				}
				if bt, ok := mu.Key.Type().Underlying().(*types.Basic); ok && bt.Info()&types.IsString != 0 {
					injective = false
				}
				c.check(injective, rule, fnName(fn)+":balance-registry-keyed-by-resource-index", mu.Pos(), "keyed by the index of the resource being resolved", "the registry of balance variables awaiting resolution is not keyed by the resource index: two balance() variables on one account overwrite each other, one keeps a nil amount and the execution panics")
			}
		}
	}
	if n == 0 {
		c.undecided(rule, "floor:registry-writes", token.NoPos, "no write to Machine.UnresolvedResourceBalances")
	}
}

func ruleR12c(c *Ctx) {
	const rule = "R12c"
	pF := c.MustField(rule, pkgVM, "Machine", "P")
	tick := c.MustFn(rule, pkgVM, "Machine.tick")
	exec := c.MustFn(rule, pkgVM, "Machine.Execute")
	if pF == nil || tick == nil || exec == nil {
		return
	}
	// every store to P is P + positive constant
	nS := 0
	for _, fn := range c.FuncsIn(pkgVM) {
		for _, b := range fn.Blocks {
			for _, ins := range b.Instrs {
				v, _, ok := storeToField(ins, pF)
				if !ok {
					continue
				}
				nS++
				okInc := false
				if bo, isB := v.(*ssa.BinOp); isB && bo.Op == token.ADD {
					_, readsP := fieldRead(bo.X, pF)
					k, isC := constInt(bo.Y)
					okInc = readsP && isC && k > 0
				}
				c.check(okInc, rule, fmt.Sprintf("%s:P-only-advances#%d", fnName(fn), nS), ins.Pos(), "P = P + positive constant", "the program counter is assigned something else than P + a positive constant: the VM can loop forever or jump")
			}
		}
	}
	if nS < 2 {
		c.undecided(rule, "floor:P-stores", token.NoPos, "fewer than 2 stores to Machine.P")
	}
	// tick: not-finished returns advanced P
	okAdv := true
	var trail []string
	pr := &PathRule{
		Step: func(pc *PathCtx, s uint64, ins ssa.Instruction) uint64 {
			if _, _, ok := storeToField(ins, pF); ok {
				s |= 1
			}
			return s
		},
		Exit: func(pc *PathCtx, s uint64, ins ssa.Instruction) {
			if ret, ok := ins.(*ssa.Return); ok {
				if fin, isB := constBool(ret.Results[0]); isB && !fin && s&1 == 0 {
					okAdv = false
					trail = pc.Trail()
				}
				if _, isB := constBool(ret.Results[0]); !isB && s&1 == 0 {
					// `return cond, nil`: may report `not finished`, so the path must have advanced P
					okAdv = false
					trail = pc.Trail()
				}
			}
		},
	}
	c.RunPaths(tick, 0, pr)
	if okAdv {
		c.ok(rule, "tick:every-unfinished-step-advances-P", tick.Pos(), "every path returning `not finished` stored P")
	} else {
		c.add(rule, "tick:every-unfinished-step-advances-P", tick.Pos(), Violated, "a path of tick reports `not finished` without advancing the program counter: Execute loops forever", trail...)
	}
	// Execute: on finished == true the loop is left
	var tickCall *ssa.Call
	allCalls(exec, func(ci ssa.CallInstruction) {
		if call, ok := ci.(*ssa.Call); ok && callsFn(ci, tick) {
			tickCall = call
		}
	})
	if tickCall == nil {
		c.undecided(rule, "Execute:calls-tick", exec.Pos(), "Execute does not call tick")
		return
	}
	okExit := true
	pr2 := &PathRule{
		Edge: func(pc *PathCtx, s uint64, from *ssa.BasicBlock, si int) (uint64, bool) {
			for _, f := range pc.edgeFacts(from, si) {
				if ex, ok := f.X.(*ssa.Extract); ok && ex.Tuple == ssa.Value(tickCall) && ex.Index == 0 {
					if b, isB := constBool(f.Y); isB && b == f.Eq {
						s |= 1
					}
				}
			}
			return s, true
		},
		Step: func(pc *PathCtx, s uint64, ins ssa.Instruction) uint64 {
			if ins == ssa.Instruction(tickCall) {
				if s&1 != 0 {
					okExit = false // tick called again after it reported finished
				}
				return s &^ 1
			}
			return s
		},
	}
	c.RunPaths(exec, 0, pr2)
	c.check(okExit, rule, "Execute:stops-when-finished", tickCall.Pos(), "after tick reports finished every path leaves the loop", "Execute calls tick again after it reported finished")
	// ResolveResources: each iteration appends one resource or leaves
	rr := c.MustFn(rule, pkgVM, "Machine.ResolveResources")
	resF := c.Field(pkgVM, "Machine", "Resources")
	if rr == nil || resF == nil {
		return
	}
	var header *ssa.BasicBlock
	for _, b := range rr.Blocks {
		if b.Comment == "for.loop" {
			header = b
		}
	}
	if header == nil {
		c.undecided(rule, "ResolveResources:loop", rr.Pos(), "loop header not found")
		return
	}
	okLoop := true
	var tr []string
	pr3 := &PathRule{
		Step: func(pc *PathCtx, s uint64, ins ssa.Instruction) uint64 {
			if v, _, ok := storeToField(ins, resF); ok {
				if call, isCall := v.(*ssa.Call); isCall {
					if bi, ok := call.Call.Value.(*ssa.Builtin); ok && bi.Name() == "append" {
						if s&3 < 3 {
							s++
						}
					}
				}
			}
			return s
		},
		Edge: func(pc *PathCtx, s uint64, from *ssa.BasicBlock, si int) (uint64, bool) {
			to := from.Succs[si]
			if to == header && header.Dominates(from) && from != header {
				if s&3 != 1 {
					okLoop = false
					tr = pc.Trail()
				}
				s &^= 3
			}
			return s, true
		},
	}
	c.RunPaths(rr, 0, pr3)
	if okLoop {
		c.ok(rule, "ResolveResources:one-resource-per-iteration", header.Instrs[0].Pos(), "every path back to the loop test appended exactly one resource")
	} else {
		c.add(rule, "ResolveResources:one-resource-per-iteration", rr.Pos(), Violated, "a path through the resolution loop returns to the loop test without having appended exactly one resource: the loop condition (len(Resources) != len(UnresolvedResources)) never becomes false, or resources shift", tr...)
	}
}

func ruleR12d(c *Ctx) {
	const rule = "R12d"
	n := 0
	for _, fn := range c.RepoFuncs() {
		pk := fnPkgPath(fn)
		if !strings.HasPrefix(pk, modPath+"/internal/machine") && pk != pkgCommand {
			continue
		}
		if strings.HasPrefix(pk, modPath+"/internal/machine/script/parser") {
			continue // generated ANTLR code (lazy static initialisation of the parser tables)
		}
		if fn.Synthetic == "package initializer" || fn.Name() == "init" || strings.HasPrefix(fn.Name(), "init#") {
			continue
		}
		for _, b := range fn.Blocks {
			for _, ins := range b.Instrs {
				// the address of a package-level variable handed to a call (a pool, cache, mutex, once or
				// counter kept at package level: `visitorPool.Get()`), or a map kept at package level updated
				if call, ok := ins.(ssa.CallInstruction); ok {
					for _, a := range call.Common().Args {
						if g, ok := a.(*ssa.Global); ok && inRepo(g.Pkg.Pkg.Path()) {
							n++
							c.bad(rule, fnName(fn)+":shares-package-variable:"+g.Name(), ins.Pos(), "the address of the package-level variable "+g.Name()+" is handed to "+calleeFullName(call)+" while compiling or running a script: a pool, cache or counter kept at package level carries state from one execution to the next")
						}
					}
				}
				if mu, ok := ins.(*ssa.MapUpdate); ok {
					if l, ok := mu.Map.(*ssa.UnOp); ok && l.Op == token.MUL {
						if g, ok := l.X.(*ssa.Global); ok && inRepo(g.Pkg.Pkg.Path()) {
							n++
							c.bad(rule, fnName(fn)+":updates-package-map:"+g.Name(), ins.Pos(), "the package-level map "+g.Name()+" is updated while compiling or running a script: state survives the execution")
						}
					}
				}
				st, ok := ins.(*ssa.Store)
				if !ok {
					continue
				}
				base := st.Addr
				for i := 0; i < 6; i++ {
					switch x := base.(type) {
					case *ssa.FieldAddr:
						base = x.X
						continue
					case *ssa.IndexAddr:
						base = x.X
						continue
					}
					break
				}
				if g, ok := base.(*ssa.Global); ok && inRepo(g.Pkg.Pkg.Path()) {
					n++
					c.bad(rule, fnName(fn)+":writes-package-variable:"+g.Name(), st.Pos(), "a package-level variable is written while compiling or running a script: state survives the execution and can change the outcome of later ones")
				}
			}
		}
	}
	if n == 0 {
		c.ok(rule, "no-package-state-written", token.NoPos, "no store to a package-level variable, no package-level variable whose address is handed to a call (pool, cache, mutex, counter) and no package-level map updated in internal/machine/** (parser excluded) and internal/engine/command outside initialisers")
	}
}

func listPanics(c *Ctx) {
	var out []string
	for _, fn := range c.RepoFuncs() {
		pk := fnPkgPath(fn)
		if !strings.HasPrefix(pk, modPath+"/internal/machine") || strings.HasPrefix(pk, modPath+"/internal/machine/script/parser") || strings.Contains(pk, "/examples") {
			continue
		}
		for _, b := range fn.Blocks {
			for _, ins := range b.Instrs {
				if p, ok := ins.(*ssa.Panic); ok && p.Pos().IsValid() {
					out = append(out, c.pos(p.Pos())+" "+fnName(fn))
				}
			}
		}
	}
	sort.Strings(out)
	c.Info["explicit_panics_in_machine_packages"] = out
	_ = constant.MakeBool
}
