package main

// core.go — loading /repo, SSA construction, obligations, evidence, known findings.
//
// Every run loads /repo's current working tree afresh (go/packages, LoadAllSyntax), builds SSA for
// everything that was loaded and hands a *Ctx to the rules of one property. Rules record
// obligations; the verdict is computed from them (see finish()).

import (
	"encoding/json"
	"fmt"
	"go/ast"
	"go/token"
	"go/types"
	"os"
	"path/filepath"
	"sort"
	"strings"
	"time"

	"golang.org/x/tools/go/callgraph"
	"golang.org/x/tools/go/callgraph/cha"
	"golang.org/x/tools/go/callgraph/vta"
	"golang.org/x/tools/go/packages"
	"golang.org/x/tools/go/ssa"
	"golang.org/x/tools/go/ssa/ssautil"
)

const (
	modPath  = "github.com/formancehq/ledger"
	libsPath = "github.com/formancehq/stack/libs/go-libs"
)

type Status string

const (
	Discharged Status = "discharged"
	Violated   Status = "violated"
	Undecided  Status = "undecided"
)

// Obligation is one instance of a rule on one construct of the current tree.
type Obligation struct {
	Rule   string   `json:"rule"`
	Key    string   `json:"key"` // stable: rule + construct, never a line number
	Pos    string   `json:"pos,omitempty"`
	Status Status   `json:"status"`
	Detail string   `json:"detail,omitempty"`
	Path   []string `json:"path,omitempty"`
	Known  bool     `json:"known_finding,omitempty"`
}

type Ctx struct {
	typedVisits map[*ssa.Function]*typedVisit
	Repo     string
	Verif    string
	Property string
	Tier     string
	Start    time.Time

	Overlay map[string][]byte
	Fset    *token.FileSet
	Roots   []*packages.Package
	ByPath  map[string]*packages.Package
	Prog    *ssa.Program
	AllFns  map[*ssa.Function]bool
	cg      *callgraph.Graph
	cidx    *callIndex
	cmd     *cmdModel
	fnsByPk map[string][]*ssa.Function

	Obls        []*Obligation
	Info        map[string]any // extra evidence keys
	Explanation string
	Trusted     []string
	Assumptions []string
	NFuncs      int // functions inspected by rules (measured)
	NSites      int // call sites / instructions matched by rules (measured)
	fnSeen      map[*ssa.Function]bool
	lockM *lockModel
}

func die(format string, a ...any) {
	fmt.Fprintf(os.Stderr, "checker: "+format+"\n", a...)
	os.Exit(2)
}

func goEnv() []string {
	env := []string{}
	for _, e := range os.Environ() {
		k := strings.SplitN(e, "=", 2)[0]
		switch k {
		case "GOFLAGS", "GOPROXY", "GOSUMDB", "GOTOOLCHAIN", "GOWORK":
			continue
		}
		env = append(env, e)
	}
	return append(env, "GOFLAGS=-mod=mod", "GOPROXY=off", "GOSUMDB=off", "GOTOOLCHAIN=local", "GOWORK=off")
}

// Load type-checks the whole main module (and, through its replace directive, libs/go-libs) from
// source. overlay maps absolute file names to replacement contents (used by mutants/controls only).
func Load(repo string, overlay map[string][]byte) (*Ctx, error) {
	c := &Ctx{Repo: repo, Start: time.Now(), Info: map[string]any{}, fnSeen: map[*ssa.Function]bool{}, Overlay: overlay}
	c.Fset = token.NewFileSet()
	cfg := &packages.Config{
		Mode:    packages.LoadAllSyntax,
		Dir:     repo,
		Env:     goEnv(),
		Fset:    c.Fset,
		Overlay: overlay,
		Tests:   false,
	}
	pkgs, err := packages.Load(cfg, "./...")
	if err != nil {
		return nil, fmt.Errorf("packages.Load: %w", err)
	}
	if len(pkgs) == 0 {
		return nil, fmt.Errorf("no packages loaded from %s", repo)
	}
	c.Roots = pkgs
	c.ByPath = map[string]*packages.Package{}
	var errs []string
	packages.Visit(pkgs, nil, func(p *packages.Package) {
		c.ByPath[p.PkgPath] = p
		if strings.HasPrefix(p.PkgPath, modPath) || strings.HasPrefix(p.PkgPath, libsPath) {
			for _, e := range p.Errors {
				errs = append(errs, e.Error())
			}
		}
	})
	if len(errs) > 0 {
		sort.Strings(errs)
		if len(errs) > 10 {
			errs = errs[:10]
		}
		return nil, fmt.Errorf("type errors in /repo:\n  %s", strings.Join(errs, "\n  "))
	}
	prog, _ := ssautil.AllPackages(pkgs, ssa.InstantiateGenerics)
	prog.Build()
	c.Prog = prog
	c.AllFns = ssautil.AllFunctions(prog)
	c.fnsByPk = map[string][]*ssa.Function{}
	for fn := range c.AllFns {
		if p := fnPkgPath(fn); p != "" {
			c.fnsByPk[p] = append(c.fnsByPk[p], fn)
		}
	}
	for _, l := range c.fnsByPk {
		sort.Slice(l, func(i, j int) bool {
			if l[i].Pos() != l[j].Pos() {
				return l[i].Pos() < l[j].Pos()
			}
			return l[i].String() < l[j].String()
		})
	}
	c.Info["packages_loaded"] = len(c.ByPath)
	c.Info["root_packages"] = len(pkgs)
	c.Info["ssa_functions"] = len(c.AllFns)
	return c, nil
}

// fnPkgPath is the package path a function's source lives in (instantiations and closures are
// attributed to their origin / parent).
func fnPkgPath(fn *ssa.Function) string {
	for fn.Parent() != nil {
		fn = fn.Parent()
	}
	if o := fn.Origin(); o != nil {
		fn = o
	}
	if fn.Pkg != nil {
		return fn.Pkg.Pkg.Path()
	}
	if fn.Object() != nil && fn.Object().Pkg() != nil {
		return fn.Object().Pkg().Path()
	}
	return ""
}

func inRepo(path string) bool {
	return strings.HasPrefix(path, modPath) || strings.HasPrefix(path, libsPath)
}

// FuncsIn returns every function (methods, literals, instantiations) whose source is in pkgPath.
func (c *Ctx) FuncsIn(pkgPath string) []*ssa.Function { return c.fnsByPk[pkgPath] }

// RepoFuncs returns all functions whose source is in one of the two repo modules.
func (c *Ctx) RepoFuncs() []*ssa.Function {
	var keys []string
	for k := range c.fnsByPk {
		if inRepo(k) {
			keys = append(keys, k)
		}
	}
	sort.Strings(keys)
	var out []*ssa.Function
	for _, k := range keys {
		out = append(out, c.fnsByPk[k]...)
	}
	return out
}

func (c *Ctx) CG() *callgraph.Graph {
	if c.cg == nil {
		c.cg = vta.CallGraph(c.AllFns, cha.CallGraph(c.Prog))
	}
	return c.cg
}

func (c *Ctx) pos(p token.Pos) string {
	if !p.IsValid() {
		return ""
	}
	ps := c.Fset.Position(p)
	rel, err := filepath.Rel(c.Repo, ps.Filename)
	if err != nil {
		rel = ps.Filename
	}
	return fmt.Sprintf("%s:%d", rel, ps.Line)
}

func (c *Ctx) seeFn(fn *ssa.Function) {
	if fn != nil && !c.fnSeen[fn] {
		c.fnSeen[fn] = true
		c.NFuncs++
	}
}

// ReadFile reads a repo-relative file, honouring the overlay (used for the SQL migration in mutants).
func (c *Ctx) ReadFile(rel string) ([]byte, error) {
	abs := filepath.Join(c.Repo, rel)
	if b, ok := c.Overlay[abs]; ok {
		return b, nil
	}
	return os.ReadFile(abs)
}

// ---- obligations ---------------------------------------------------------------------------

func (c *Ctx) add(rule, key string, p token.Pos, st Status, detail string, path ...string) *Obligation {
	o := &Obligation{Rule: rule, Key: rule + ":" + key, Pos: c.pos(p), Status: st, Detail: detail, Path: path}
	c.Obls = append(c.Obls, o)
	return o
}
func (c *Ctx) ok(rule, key string, p token.Pos, detail string) {
	c.add(rule, key, p, Discharged, detail)
}
func (c *Ctx) bad(rule, key string, p token.Pos, detail string, path ...string) {
	c.add(rule, key, p, Violated, detail, path...)
}
func (c *Ctx) undecided(rule, key string, p token.Pos, detail string) {
	c.add(rule, key, p, Undecided, detail)
}

// check records discharged/violated from a condition.
func (c *Ctx) check(cond bool, rule, key string, p token.Pos, okDetail, badDetail string) bool {
	if cond {
		c.ok(rule, key, p, okDetail)
	} else {
		c.bad(rule, key, p, badDetail)
	}
	return cond
}

// ---- anchors ---------------------------------------------------------------------------------

func (c *Ctx) Pkg(path string) *packages.Package { return c.ByPath[path] }

func (c *Ctx) SSAPkg(path string) *ssa.Package {
	p := c.ByPath[path]
	if p == nil || p.Types == nil {
		return nil
	}
	return c.Prog.Package(p.Types)
}

// Fn resolves a package-level function or a method ("T.m" / "*T.m" both accepted as "T.m").
func (c *Ctx) Fn(pkgPath, name string) *ssa.Function {
	sp := c.SSAPkg(pkgPath)
	if sp == nil {
		return nil
	}
	if i := strings.Index(name, "."); i >= 0 {
		tn, mn := name[:i], name[i+1:]
		obj := sp.Pkg.Scope().Lookup(tn)
		if obj == nil {
			return nil
		}
		named, ok := obj.Type().(*types.Named)
		if !ok {
			return nil
		}
		for i := 0; i < named.NumMethods(); i++ {
			m := named.Method(i)
			if m.Name() == mn {
				return c.Prog.FuncValue(m)
			}
		}
		return nil
	}
	return sp.Func(name)
}

// MustFn resolves an anchor function or records an undecided obligation for the rule.
func (c *Ctx) MustFn(rule, pkgPath, name string) *ssa.Function {
	fn := c.Fn(pkgPath, name)
	if fn == nil || (fn.Blocks == nil && fn.TypeParams().Len() == 0) {
		c.undecided(rule, "anchor:"+shortPkg(pkgPath)+"."+name, token.NoPos, "anchor function not found in the current tree: "+pkgPath+"."+name)
		return nil
	}
	c.seeFn(fn)
	return fn
}

func (c *Ctx) Named(pkgPath, name string) *types.Named {
	p := c.ByPath[pkgPath]
	if p == nil || p.Types == nil {
		return nil
	}
	obj := p.Types.Scope().Lookup(name)
	if obj == nil {
		return nil
	}
	n, _ := obj.Type().(*types.Named)
	return n
}

// Field resolves a struct field object.
func (c *Ctx) Field(pkgPath, typeName, field string) *types.Var {
	n := c.Named(pkgPath, typeName)
	if n == nil {
		return nil
	}
	st, ok := n.Underlying().(*types.Struct)
	if !ok {
		return nil
	}
	for i := 0; i < st.NumFields(); i++ {
		if st.Field(i).Name() == field {
			return st.Field(i)
		}
	}
	return nil
}

func (c *Ctx) MustField(rule, pkgPath, typeName, field string) *types.Var {
	f := c.Field(pkgPath, typeName, field)
	if f == nil {
		c.undecided(rule, "anchor:"+shortPkg(pkgPath)+"."+typeName+"."+field, token.NoPos, "anchor field not found")
	}
	return f
}

// MustFieldLike resolves a field by name, or — when a refactoring renamed it — as the only field of the struct whose
// type satisfies like.
func (c *Ctx) MustFieldLike(rule, pkgPath, typeName, field string, like func(types.Type) bool) *types.Var {
	if f := c.Field(pkgPath, typeName, field); f != nil {
		return f
	}
	if n := c.Named(pkgPath, typeName); n != nil {
		if st, ok := n.Underlying().(*types.Struct); ok {
			var found *types.Var
			k := 0
			for i := 0; i < st.NumFields(); i++ {
				if like(st.Field(i).Type()) {
					found = st.Field(i)
					k++
				}
			}
			if k == 1 {
				return found
			}
		}
	}
	c.undecided(rule, "anchor:"+shortPkg(pkgPath)+"."+typeName+"."+field, token.NoPos, "anchor field not found")
	return nil
}

// IfaceMethod resolves a method object of a named interface type.
func (c *Ctx) IfaceMethod(pkgPath, typeName, method string) *types.Func {
	n := c.Named(pkgPath, typeName)
	if n == nil {
		return nil
	}
	it, ok := n.Underlying().(*types.Interface)
	if !ok {
		return nil
	}
	for i := 0; i < it.NumMethods(); i++ {
		if it.Method(i).Name() == method {
			return it.Method(i)
		}
	}
	return nil
}

func shortPkg(p string) string {
	p = strings.TrimPrefix(p, modPath+"/")
	p = strings.TrimPrefix(p, libsPath+"/")
	return p
}

// fnName is a stable printable name of a function: pkg-relative, literals as parent$n.
func fnName(fn *ssa.Function) string {
	if fn == nil {
		return "<nil>"
	}
	s := fn.String()
	s = strings.ReplaceAll(s, modPath+"/", "")
	s = strings.ReplaceAll(s, libsPath+"/", "libs/")
	return s
}

// SyntaxFile finds the parsed file with the given repo-relative name.
func (c *Ctx) SyntaxFile(rel string) (*packages.Package, *ast.File) {
	abs := filepath.Join(c.Repo, rel)
	for _, p := range c.ByPath {
		for i, f := range p.CompiledGoFiles {
			if f == abs && i < len(p.Syntax) {
				return p, p.Syntax[i]
			}
		}
	}
	return nil, nil
}

// ---- known findings ------------------------------------------------------------------------

type Finding struct {
	Property string `json:"property"`
	Key      string `json:"key"`
	Status   string `json:"status"` // "known" | "fixed"
	Commit   string `json:"commit,omitempty"`
	What     string `json:"what"`
	Witness  string `json:"witness,omitempty"`
}

func loadFindings(verif string) []Finding {
	b, err := os.ReadFile(filepath.Join(verif, "known_findings.json"))
	if err != nil {
		return nil
	}
	var f struct {
		Findings []Finding `json:"findings"`
	}
	if err := json.Unmarshal(b, &f); err != nil {
		die("known_findings.json: %v", err)
	}
	return f.Findings
}

// ---- verdict + evidence ----------------------------------------------------------------------

type propMeta struct {
	Level       string
	Explanation string
	Trusted     []string
	Assumptions []string
	NotDecided  string
}

func (c *Ctx) finish(meta propMeta) int {
	if meta.Assumptions == nil {
		meta.Assumptions = []string{}
	}
	if meta.Trusted == nil {
		meta.Trusted = []string{}
	}
	findings := loadFindings(c.Verif)
	known := map[string]Finding{}
	for _, f := range findings {
		if f.Property == c.Property && f.Status == "known" {
			known[f.Key] = f
		}
	}
	sort.SliceStable(c.Obls, func(i, j int) bool { return c.Obls[i].Key < c.Obls[j].Key })
	// duplicate keys get a numeric suffix in order of position so keys stay unique and stable
	seen := map[string]int{}
	for _, o := range c.Obls {
		seen[o.Key]++
		if n := seen[o.Key]; n > 1 {
			o.Key = fmt.Sprintf("%s#%d", o.Key, n)
		}
	}
	nDis, nVio, nUnd, nKnown := 0, 0, 0, 0
	var failing []*Obligation
	usedKnown := map[string]bool{}
	for _, o := range c.Obls {
		switch o.Status {
		case Discharged:
			nDis++
		case Violated:
			if f, ok := known[o.Key]; ok {
				o.Known = true
				nKnown++
				usedKnown[o.Key] = true
				fmt.Printf("KNOWN-FINDING: property=%s %s [%s at %s]\n", c.Property, f.What, o.Key, o.Pos)
			} else {
				nVio++
				failing = append(failing, o)
			}
		case Undecided:
			nUnd++
			failing = append(failing, o)
		}
	}
	vdir := filepath.Join(c.Verif, "evidence", "violations")
	os.MkdirAll(vdir, 0o755)
	// remove stale replay files of this property
	if old, _ := filepath.Glob(filepath.Join(vdir, c.Property+".*.json")); old != nil {
		for _, f := range old {
			os.Remove(f)
		}
	}
	for i, o := range failing {
		p := filepath.Join(vdir, fmt.Sprintf("%s.%d.json", c.Property, i+1))
		b, _ := json.MarshalIndent(map[string]any{"property": c.Property, "obligation": o}, "", " ")
		os.WriteFile(p, b, 0o644)
		fmt.Printf("  %s %s at %s: %s\n", o.Status, o.Key, o.Pos, o.Detail)
		for _, s := range o.Path {
			fmt.Printf("      %s\n", s)
		}
		fmt.Printf("VIOLATION property=%s replay=%s\n", c.Property, p)
	}

	// samples: a handful of discharged obligations and every non-discharged one
	var samples []any
	perRule := map[string]int{}
	for _, o := range c.Obls {
		if o.Status != Discharged || perRule[o.Rule] < 3 {
			samples = append(samples, o)
			perRule[o.Rule]++
		}
	}
	rules := map[string]map[string]int{}
	for _, o := range c.Obls {
		if rules[o.Rule] == nil {
			rules[o.Rule] = map[string]int{}
		}
		st := string(o.Status)
		if o.Known {
			st = "known_finding"
		}
		rules[o.Rule][st]++
	}
	cov := map[string]any{
		"explanation":         meta.Explanation,
		"not_decided":         meta.NotDecided,
		"obligations":         len(c.Obls),
		"discharged":          nDis,
		"violated":            nVio,
		"undecided":           nUnd,
		"known_findings":      nKnown,
		"rules":               rules,
		"samples":             samples,
		"functions_inspected": c.NFuncs,
		"sites_matched":       c.NSites,
		"checker_cmd":         fmt.Sprintf("bin/checker -property %s -tier %s", c.Property, c.Tier),
		"trusted_base":        meta.Trusted,
		"exhaustive":          true,
	}
	for k, v := range c.Info {
		cov[k] = v
	}
	ev := map[string]any{
		"property_id": c.Property,
		"tier":        c.Tier,
		"seed":        seedFromEnv(),
		"level":       meta.Level,
		"coverage":    cov,
		"assumptions": meta.Assumptions,
		"wall_s":      time.Since(c.Start).Seconds(),
		"violations":  len(failing),
	}
	b, _ := json.MarshalIndent(ev, "", " ")
	evp := filepath.Join(c.Verif, "evidence", c.Property+".json")
	if err := os.WriteFile(evp, b, 0o644); err != nil {
		die("write evidence: %v", err)
	}
	fmt.Printf("%s %s: %d obligations, %d discharged, %d known findings, %d violated, %d undecided (%.1fs)\n",
		c.Property, c.Tier, len(c.Obls), nDis, nKnown, nVio, nUnd, time.Since(c.Start).Seconds())
	if len(failing) > 0 {
		return 1
	}
	return 0
}

func seedFromEnv() int {
	var n int
	fmt.Sscanf(os.Getenv("VERIF_SEED"), "%d", &n)
	return n
}

// AllInstancesOf: the instantiations of a generic function that exist in the program (the function itself when it
// is not generic).
func (c *Ctx) AllInstancesOf(fn *ssa.Function) []*ssa.Function {
	if fn == nil {
		return nil
	}
	if fn.TypeParams().Len() == 0 || len(fn.TypeArgs()) > 0 {
		return []*ssa.Function{fn}
	}
	var out []*ssa.Function
	for f := range c.AllFns {
		if f.Origin() == fn && len(f.Blocks) > 0 {
			out = append(out, f)
		}
	}
	sort.Slice(out, func(i, j int) bool { return out[i].String() < out[j].String() })
	return out
}
