package main

// asthelp.go — table extraction from the type-checked AST: const groups, switch case sets,
// "case → returned constant" maps, composite-literal field maps.

import (
	"go/ast"
	"go/constant"
	"go/token"
	"go/types"
	"sort"
	"strings"

	"golang.org/x/tools/go/packages"
)

// FuncDecl finds the declaration of pkgPath.name ("T.m" for methods).
func (c *Ctx) FuncDecl(pkgPath, name string) (*packages.Package, *ast.FuncDecl) {
	p := c.ByPath[pkgPath]
	if p == nil {
		return nil, nil
	}
	recv, fname := "", name
	if i := strings.Index(name, "."); i >= 0 {
		recv, fname = name[:i], name[i+1:]
	}
	for _, f := range p.Syntax {
		for _, d := range f.Decls {
			fd, ok := d.(*ast.FuncDecl)
			if !ok || fd.Name.Name != fname {
				continue
			}
			if recv == "" && fd.Recv == nil {
				return p, fd
			}
			if recv != "" && fd.Recv != nil && len(fd.Recv.List) == 1 && recvName(fd.Recv.List[0].Type) == recv {
				return p, fd
			}
		}
	}
	return p, nil
}

func recvName(e ast.Expr) string {
	switch x := e.(type) {
	case *ast.StarExpr:
		return recvName(x.X)
	case *ast.Ident:
		return x.Name
	case *ast.IndexExpr:
		return recvName(x.X)
	case *ast.IndexListExpr:
		return recvName(x.X)
	}
	return ""
}

func (c *Ctx) MustFuncDecl(rule, pkgPath, name string) (*packages.Package, *ast.FuncDecl) {
	p, fd := c.FuncDecl(pkgPath, name)
	if fd == nil || fd.Body == nil {
		c.undecided(rule, "anchor:"+shortPkg(pkgPath)+"."+name, token.NoPos, "anchor function declaration not found")
		return p, nil
	}
	c.NFuncs++
	return p, fd
}

// ConstsOfType lists the package-level constants of pkgPath whose type is the named type typeName.
func (c *Ctx) ConstsOfType(pkgPath, typeName string) []*types.Const {
	p := c.ByPath[pkgPath]
	if p == nil || p.Types == nil {
		return nil
	}
	var out []*types.Const
	sc := p.Types.Scope()
	for _, n := range sc.Names() {
		if k, ok := sc.Lookup(n).(*types.Const); ok {
			if nt, ok := k.Type().(*types.Named); ok && nt.Obj().Name() == typeName && nt.Obj().Pkg() == p.Types {
				out = append(out, k)
			}
		}
	}
	sort.Slice(out, func(i, j int) bool { return out[i].Name() < out[j].Name() })
	return out
}

type caseClause struct {
	Exprs   []ast.Expr
	Default bool
	Body    []ast.Stmt
	Pos     token.Pos
}

// switchesIn returns the expression switches (with a tag) found in body, outermost first.
func switchesIn(body ast.Node) []*ast.SwitchStmt {
	var out []*ast.SwitchStmt
	ast.Inspect(body, func(n ast.Node) bool {
		if s, ok := n.(*ast.SwitchStmt); ok {
			out = append(out, s)
		}
		return true
	})
	return out
}

func typeSwitchesIn(body ast.Node) []*ast.TypeSwitchStmt {
	var out []*ast.TypeSwitchStmt
	ast.Inspect(body, func(n ast.Node) bool {
		if s, ok := n.(*ast.TypeSwitchStmt); ok {
			out = append(out, s)
		}
		return true
	})
	return out
}

func clausesOf(body *ast.BlockStmt) []caseClause {
	var out []caseClause
	for _, st := range body.List {
		cc, ok := st.(*ast.CaseClause)
		if !ok {
			continue
		}
		out = append(out, caseClause{Exprs: cc.List, Default: cc.List == nil, Body: cc.Body, Pos: cc.Pos()})
	}
	return out
}

// constVal returns the constant value of an expression, if it has one.
func constVal(p *packages.Package, e ast.Expr) constant.Value {
	if tv, ok := p.TypesInfo.Types[e]; ok {
		return tv.Value
	}
	return nil
}

// constObj returns the constant object an expression names (ident or selector), if any.
func constObj(p *packages.Package, e ast.Expr) *types.Const {
	switch x := e.(type) {
	case *ast.Ident:
		k, _ := p.TypesInfo.Uses[x].(*types.Const)
		return k
	case *ast.SelectorExpr:
		k, _ := p.TypesInfo.Uses[x.Sel].(*types.Const)
		return k
	case *ast.ParenExpr:
		return constObj(p, x.X)
	}
	return nil
}

// firstReturnConst finds the first return statement in stmts (not nested in function literals) and
// returns the constant value of its idx-th result.
func firstReturnConst(p *packages.Package, stmts []ast.Stmt, idx int) (constant.Value, *types.Const, bool) {
	var val constant.Value
	var obj *types.Const
	found := false
	for _, s := range stmts {
		ast.Inspect(s, func(n ast.Node) bool {
			if found {
				return false
			}
			if _, ok := n.(*ast.FuncLit); ok {
				return false
			}
			if r, ok := n.(*ast.ReturnStmt); ok && idx < len(r.Results) {
				val = constVal(p, r.Results[idx])
				obj = constObj(p, r.Results[idx])
				found = true
				return false
			}
			return true
		})
		if found {
			break
		}
	}
	return val, obj, found
}

func sortedKeys[V any](m map[string]V) []string {
	var out []string
	for k := range m {
		out = append(out, k)
	}
	sort.Strings(out)
	return out
}

func setDiff(a, b map[string]bool) []string {
	var out []string
	for k := range a {
		if !b[k] {
			out = append(out, k)
		}
	}
	sort.Strings(out)
	return out
}

// jsonTagName returns the JSON name of a struct field ("-" if excluded).
func jsonTagName(st *types.Struct, i int) string {
	tag := reflectTag(st.Tag(i), "json")
	name := strings.Split(tag, ",")[0]
	if name == "" {
		return st.Field(i).Name()
	}
	return name
}

func reflectTag(tag, key string) string {
	// minimal reflect.StructTag.Get
	for tag != "" {
		i := 0
		for i < len(tag) && tag[i] == ' ' {
			i++
		}
		tag = tag[i:]
		if tag == "" {
			break
		}
		i = 0
		for i < len(tag) && tag[i] > ' ' && tag[i] != ':' && tag[i] != '"' {
			i++
		}
		if i == 0 || i+1 >= len(tag) || tag[i] != ':' || tag[i+1] != '"' {
			break
		}
		name := tag[:i]
		tag = tag[i+1:]
		i = 1
		for i < len(tag) && tag[i] != '"' {
			if tag[i] == '\\' {
				i++
			}
			i++
		}
		if i >= len(tag) {
			break
		}
		qvalue := tag[:i+1]
		tag = tag[i+1:]
		if key == name {
			v := qvalue[1 : len(qvalue)-1]
			return v
		}
	}
	return ""
}
