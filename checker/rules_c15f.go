package main

// R15f — what queuing a request adds to the locker's state, abandoning it takes back.
//
// A request that cannot be granted at once is recorded in the locker (today: appended to the list of waiting
// intents) before the caller blocks. When the caller gives up (ctx.Done) while the request is still queued, the
// request must vanish from the locker: every piece of locker state that the queuing phase changed is changed again
// on the abandon path. A counter of "writers waiting for this account" that is incremented when a request is queued
// and only decremented when it is granted leaves a phantom waiter behind a cancelled request, and every later
// request on that account queues behind it forever.
//
// Decided on the paths of DefaultLocker.Lock (package helpers stepped through): Q = the fields of DefaultLocker
// changed (map update, delete, store, call of a method of the field's value) on the way to the blocking select,
// outside boolean probes; A = the fields changed after the ctx.Done arm on the branch where the request is found
// still queued (the default arm of the non-blocking receive on the grant channel). Q ⊆ A on every such path.

import (
	"fmt"
	"go/token"
	"go/types"
	"sort"
	"strings"

	"golang.org/x/tools/go/ssa"
)

func ruleR15f(c *Ctx) {
	const rule = "R15f"
	lockFn := c.MustFn(rule, pkgCommand, "DefaultLocker.Lock")
	lockerT := c.Named(pkgCommand, "DefaultLocker")
	if lockFn == nil || lockerT == nil {
		return
	}
	st, ok := lockerT.Underlying().(*types.Struct)
	if !ok || st.NumFields() > 14 {
		c.undecided(rule, "anchor:DefaultLocker", token.NoPos, "unexpected shape of DefaultLocker")
		return
	}
	fieldBit := func(f *types.Var) int {
		for i := 0; i < st.NumFields(); i++ {
			if sameField(st.Field(i), f) {
				if isNamed(f.Type(), "sync", "Mutex") || isNamed(f.Type(), "sync", "RWMutex") {
					return -1
				}
				return i
			}
		}
		return -1
	}
	// which field of the locker does this instruction change?
	changed := func(ins ssa.Instruction) int {
		fieldOfLoad := func(v ssa.Value) int {
			if f, base := anyFieldRead(v); f != nil && isNamed(base.Type(), pkgCommand, "DefaultLocker") {
				return fieldBit(f)
			}
			return -1
		}
		switch x := ins.(type) {
		case *ssa.MapUpdate:
			return fieldOfLoad(x.Map)
		case *ssa.Store:
			if fa, ok := x.Addr.(*ssa.FieldAddr); ok && isNamed(fa.X.Type(), pkgCommand, "DefaultLocker") {
				return fieldBit(fieldOfAddr(fa))
			}
		case *ssa.Call:
			if bi, ok := x.Call.Value.(*ssa.Builtin); ok && bi.Name() == "delete" {
				return fieldOfLoad(x.Call.Args[0])
			}
			if g := staticCallee(x); g != nil && fnPkgPath(origin(g)) != pkgCommand && len(x.Call.Args) > 0 && g.Signature.Recv() != nil {
				return fieldOfLoad(x.Call.Args[0])
			}
		}
		return -1
	}
	const (
		waited = 1 << (40 + iota)
		inDone
		stillQueued
	)
	key := "DefaultLocker.Lock:abandon-undoes-queuing"
	obl := newOblSet(c, rule)
	obl.expect(key, lockFn.Pos(), "every locker field changed while queuing the request is changed again when the queued request is abandoned")
	nAbandon := 0
	var doneSel *ssa.Select
	doneIdx := -1
	for _, b := range lockFn.Blocks {
		for _, ins := range b.Instrs {
			if s, ok := ins.(*ssa.Select); ok && s.Blocking {
				for i, stt := range s.States {
					if call, ok := stt.Chan.(*ssa.Call); ok && call.Call.IsInvoke() && call.Call.Method.Name() == "Done" {
						doneSel, doneIdx = s, i
					}
				}
			}
		}
	}
	if doneSel == nil {
		obl.undecided(key, lockFn.Pos(), "no blocking select with a receive on ctx.Done() found in DefaultLocker.Lock")
		obl.flush()
		return
	}
	// the channel a grant is signalled on: a channel-typed field of the intent
	isGrantChan := func(v ssa.Value) bool {
		f, base := anyFieldRead(v)
		if f == nil {
			return false
		}
		_, isChan := f.Type().Underlying().(*types.Chan)
		return isChan && isNamed(base.Type(), pkgCommand, "lockIntent")
	}
	loopMemo := map[*ssa.Function]map[ssa.Instruction][]int{}
	loopBits := func(ins ssa.Instruction) []int {
		fn := ins.Parent()
		m, ok := loopMemo[fn]
		if !ok {
			m = map[ssa.Instruction][]int{}
			for head, body := range naturalLoops(fn) {
				var bits []int
				for b := range body {
					for _, i2 := range b.Instrs {
						if bit := changed(i2); bit >= 0 {
							bits = append(bits, bit)
						}
					}
				}
				if len(bits) > 0 && len(head.Instrs) > 0 {
					first := head.Instrs[0]
					for _, hi := range head.Instrs {
						if _, isPhi := hi.(*ssa.Phi); !isPhi {
							first = hi
							break
						}
					}
					m[first] = append(m[first], bits...)
				}
			}
			loopMemo[fn] = m
		}
		return m[ins]
	}
	pr := &PathRule{
		Inline: func(call ssa.CallInstruction) []*ssa.Function {
			g := staticCallee(call)
			if g == nil || fnPkgPath(origin(g)) != pkgCommand || len(g.Blocks) == 0 || g == lockFn {
				return nil
			}
			// boolean probes (tryLock & co.) change the held-lock tables only when they succeed: not part of queuing
			if g.Signature.Results().Len() == 1 {
				if bt, ok := g.Signature.Results().At(0).Type().Underlying().(*types.Basic); ok && bt.Kind() == types.Bool {
					return nil
				}
			}
			return []*ssa.Function{g}
		},
		MaxDepth: 3,
		Step: func(pc *PathCtx, s uint64, ins ssa.Instruction) uint64 {
			if ins == ssa.Instruction(doneSel) {
				return s | waited
			}
			// a change made in the body of a loop counts as soon as the loop is reached: whether `for _, a := range
			// accounts.Write` runs zero times is the same on the queuing side and on the abandon side
			for _, bit := range loopBits(ins) {
				if s&waited == 0 {
					s |= 1 << uint(bit)
				} else if s&inDone != 0 && s&stillQueued != 0 {
					s |= 1 << uint(16+bit)
				}
			}
			if bit := changed(ins); bit >= 0 {
				if s&waited == 0 {
					s |= 1 << uint(bit)
				} else if s&inDone != 0 && s&stillQueued != 0 {
					s |= 1 << uint(16+bit)
				}
			}
			return s
		},
		Edge: func(pc *PathCtx, s uint64, from *ssa.BasicBlock, si int) (uint64, bool) {
			for _, f := range pc.edgeFacts(from, si) {
				// `if intent.isAcquired()`: a side-effect-free probe of the grant channel, false = still queued
				if call, ok := f.X.(*ssa.Call); ok && s&inDone != 0 {
					if g := staticCallee(call); g != nil && isAcquiredProbe(g, isGrantChan) {
						if bv, isB := constBool(f.Y); isB && bv != f.Eq {
							s |= stillQueued
						}
					}
				}
				ex, ok := f.X.(*ssa.Extract)
				if !ok || ex.Index != 0 {
					continue
				}
				sel, ok := ex.Tuple.(*ssa.Select)
				if !ok {
					continue
				}
				n, isC := constInt(f.Y)
				if !isC {
					continue
				}
				if sel == doneSel && int(n) == doneIdx && f.Eq {
					s |= inDone
				}
				// the non-blocking probe of the grant channel: index 0 = granted meanwhile; anything else = still queued
				if !sel.Blocking && len(sel.States) == 1 && n == 0 && !f.Eq && s&inDone != 0 {
					s |= stillQueued
				}
			}
			return s, true
		},
		Exit: func(pc *PathCtx, s uint64, ins ssa.Instruction) {
			if pc.parent != nil {
				return
			}
			if _, isRet := ins.(*ssa.Return); !isRet || s&inDone == 0 || s&stillQueued == 0 {
				return
			}
			nAbandon++
			var missing []string
			for i := 0; i < st.NumFields(); i++ {
				if s&(1<<uint(i)) != 0 && s&(1<<uint(16+i)) == 0 {
					missing = append(missing, st.Field(i).Name())
				}
			}
			if len(missing) > 0 {
				sort.Strings(missing)
				obl.violate(key, ins.Pos(), fmt.Sprintf("queuing the request changed DefaultLocker.%s, but the path that abandons a still-queued request (ctx.Done, not granted meanwhile) does not touch it: the cancelled request leaves that state behind and later requests on its accounts wait for a request that no longer exists", strings.Join(missing, ", ")), pc.Trail())
			}
		},
	}
	c.RunPaths(lockFn, 0, pr)
	if nAbandon == 0 {
		obl.undecided(key, lockFn.Pos(), "no path from the ctx.Done() arm through the `still queued` branch to a return was found")
	}
	obl.flush()
}
