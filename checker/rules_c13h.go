package main

import (
	"fmt"
	"go/token"
	"go/types"
	"reflect"
	"sort"
	"strings"

	"golang.org/x/tools/go/ssa"
)

// ---- R13h: the reader's envelope knows every key the writer emits -------------------------------------
//
// A struct type T of the content-carrying packages that has a hand-written UnmarshalJSON decoding into a local
// auxiliary struct A (the repo's idiom for payloads with an interface-typed field: decode the envelope, then
// hydrate) is written by encoding/json from T's own fields (no MarshalJSON) — the key set of the writer is then
// the json key set of T, the key set of the reader is that of A. Every key of T must be a key of A (encoding/json
// matches case-insensitively), otherwise the field is silently dropped when the entry is read back: the round
// trip changes the content and the recomputed hash differs from the stored one.

type jsonKey struct {
	name   string
	depth  int
	tagged bool
	path   string
}

// jsonKeysOf computes the keys encoding/json uses for a struct type (tags, "-", embedded promotion with
// depth/tag dominance).
func jsonKeysOf(t types.Type) map[string]jsonKey {
	type cand struct {
		k    jsonKey
		dead bool
	}
	cands := map[string]*cand{}
	var walk func(t types.Type, depth int, path string, seen map[types.Type]bool)
	walk = func(t types.Type, depth int, path string, seen map[types.Type]bool) {
		t = types.Unalias(t)
		if p, ok := t.Underlying().(*types.Pointer); ok {
			t = types.Unalias(p.Elem())
		}
		st, ok := t.Underlying().(*types.Struct)
		if !ok || seen[t] {
			return
		}
		seen[t] = true
		defer delete(seen, t)
		for i := 0; i < st.NumFields(); i++ {
			f := st.Field(i)
			tag := reflect.StructTag(st.Tag(i)).Get("json")
			if tag == "-" {
				continue
			}
			name, _, _ := strings.Cut(tag, ",")
			if f.Embedded() && name == "" {
				ft := types.Unalias(f.Type())
				if p, ok := ft.Underlying().(*types.Pointer); ok {
					ft = p.Elem()
				}
				if _, isStruct := ft.Underlying().(*types.Struct); isStruct {
					// a struct with its own (Un)MarshalJSON is a single value under the field name, like any other field
					if !hasJSONMethod(ft, "MarshalJSON") && !hasJSONMethod(ft, "UnmarshalJSON") {
						walk(ft, depth+1, path+f.Name()+".", seen)
						continue
					}
				}
			}
			if !f.Exported() {
				continue
			}
			tagged := name != ""
			if name == "" {
				name = f.Name()
			}
			k := jsonKey{name: name, depth: depth, tagged: tagged, path: path + f.Name()}
			lk := strings.ToLower(name)
			old := cands[lk]
			switch {
			case old == nil:
				cands[lk] = &cand{k: k}
			case k.depth < old.k.depth:
				cands[lk] = &cand{k: k}
			case k.depth == old.k.depth:
				if k.tagged && !old.k.tagged {
					cands[lk] = &cand{k: k}
				} else if k.tagged == old.k.tagged {
					old.dead = true
				}
			}
		}
	}
	walk(t, 0, "", map[types.Type]bool{})
	out := map[string]jsonKey{}
	for lk, cd := range cands {
		if !cd.dead {
			out[lk] = cd.k
		}
	}
	return out
}

func hasJSONMethod(t types.Type, name string) bool {
	for _, tt := range []types.Type{t, types.NewPointer(t)} {
		ms := types.NewMethodSet(tt)
		for i := 0; i < ms.Len(); i++ {
			if ms.At(i).Obj().Name() == name {
				return true
			}
		}
	}
	return false
}

func ruleR13h(c *Ctx, rule string, floor int) {
	n := 0
	type inst struct {
		fn *ssa.Function
	}
	var fns []*ssa.Function
	// the body of a generic method is decided once, through its smallest ground instance
	rep := map[*ssa.Function]*ssa.Function{}
	for fn := range c.AllFns {
		o := origin(fn)
		if o.Name() != "UnmarshalJSON" || fn.Signature.Recv() == nil || len(fn.Blocks) == 0 {
			continue
		}
		if fn.Synthetic != "" && !strings.HasPrefix(fn.Synthetic, "instance of") {
			continue
		}
		if pp := fnPkgPath(o); !strings.HasPrefix(pp, modPath) || strings.HasPrefix(pp, libsPath) {
			continue
		}
		if strings.HasSuffix(c.Fset.Position(o.Pos()).Filename, "_test.go") {
			continue
		}
		if fn != o && !isGroundInstance(fn) {
			continue
		}
		if fn == o && o.TypeParams().Len() > 0 {
			continue // the generic body itself: an instance stands for it
		}
		if old := rep[o]; old == nil || fn.String() < old.String() {
			rep[o] = fn
		}
	}
	for _, fn := range rep {
		fns = append(fns, fn)
	}
	sort.Slice(fns, func(i, j int) bool { return fns[i].Pos() < fns[j].Pos() })
	for _, fn := range fns {
		recv := fn.Signature.Recv().Type()
		pt, ok := types.Unalias(recv).(*types.Pointer)
		if !ok {
			continue
		}
		T := types.Unalias(pt.Elem())
		if _, ok := T.Underlying().(*types.Struct); !ok {
			continue
		}
		// the auxiliary structs this method decodes the whole input into
		var auxes []types.Type
		var auxPos token.Pos
		allCalls(fn, func(ci ssa.CallInstruction) {
			name := calleeFullName(ci)
			var target ssa.Value
			switch name {
			case "encoding/json.Unmarshal":
				// only decodes of the method's own input (parameter 1) describe the envelope
				if len(ci.Common().Args) == 2 && derivesFromParam(ci.Common().Args[0], fn.Params[1]) {
					target = ci.Common().Args[1]
				}
			case "(*encoding/json.Decoder).Decode":
				target = ci.Common().Args[len(ci.Common().Args)-1]
			}
			if target == nil {
				return
			}
			if mi, ok := target.(*ssa.MakeInterface); ok {
				target = mi.X
			}
			p, ok := types.Unalias(target.Type()).(*types.Pointer)
			if !ok {
				return
			}
			A := types.Unalias(p.Elem())
			if _, ok := A.Underlying().(*types.Struct); !ok {
				return
			}
			auxes = append(auxes, A)
			if auxPos == token.NoPos {
				auxPos = ci.Pos()
			}
		})
		if len(auxes) == 0 {
			continue // not the envelope idiom (scalar codecs such as Time, LogType, MonetaryInt)
		}
		n++
		c.seeFn(fn)
		key := typeShort(T) + ".UnmarshalJSON:envelope-knows-every-written-key"
		if hasOwnMarshalJSON(T) {
			// the writer's keys are not the struct's keys: the key sets of the two hand-written codecs are not compared;
			// what the decoder read must still reach the receiver
			c.ok(rule, key, fn.Pos(), "hand-written MarshalJSON: key sets not compared (the decoded fields are still followed into the receiver)")
			envelopeFillsReceiver(c, rule, fn, T)
			continue
		}
		want := jsonKeysOf(T)
		have := map[string]jsonKey{}
		for _, A := range auxes {
			for k, v := range jsonKeysOf(A) {
				have[k] = v
			}
		}
		var missing []string
		for lk, k := range want {
			if _, ok := have[lk]; !ok {
				missing = append(missing, fmt.Sprintf("%s (field %s)", k.name, k.path))
			}
		}
		sort.Strings(missing)
		c.NSites += len(want)
		if len(missing) == 0 {
			c.ok(rule, key, fn.Pos(), fmt.Sprintf("all %d keys written for %s are keys of the struct UnmarshalJSON decodes into", len(want), typeShort(T)))
		} else {
			c.add(rule, key, auxPos, Violated, "encoding/json writes "+typeShort(T)+" with key(s) "+strings.Join(missing, ", ")+" that the struct decoded by its UnmarshalJSON does not declare: the value is dropped when the entry is read back, the round trip changes the content and the recomputed hash differs")
		}
		envelopeFillsReceiver(c, rule, fn, T)
		envelopeParsesFullWidth(c, rule, fn, T)
	}
	if n < floor {
		c.undecided(rule, "floor:envelope-decoders", token.NoPos, fmt.Sprintf("expected at least %d UnmarshalJSON methods decoding through an auxiliary struct (ChainedLog, SetMetadataLogPayload, DeleteMetadataLogPayload); found %d", floor, n))
	}
}

func hasOwnMarshalJSON(T types.Type) bool {
	for _, tt := range []types.Type{T, types.NewPointer(T)} {
		ms := types.NewMethodSet(tt)
		for i := 0; i < ms.Len(); i++ {
			sel := ms.At(i)
			if sel.Obj().Name() == "MarshalJSON" && len(sel.Index()) == 1 {
				return true
			}
		}
	}
	return false
}

func typeShort(t types.Type) string {
	return types.TypeString(t, func(p *types.Package) string { return p.Name() })
}

// derivesFromParam: v is the parameter itself or a slice/conversion of it.
func derivesFromParam(v ssa.Value, p *ssa.Parameter) bool {
	for i := 0; i < 8; i++ {
		switch x := v.(type) {
		case *ssa.Parameter:
			return x == p
		case *ssa.Slice:
			v = x.X
		case *ssa.Convert:
			v = x.X
		case *ssa.ChangeType:
			v = x.X
		case *ssa.Call:
			// bytes.TrimSpace(data) and the like
			if len(x.Call.Args) == 1 && !x.Call.IsInvoke() {
				v = x.Call.Args[0]
				continue
			}
			return false
		default:
			return false
		}
	}
	return false
}

// envelopeFillsReceiver: the second half of the envelope idiom — what was decoded reaches the receiver. Every
// field of T that encoding/json writes is stored into the receiver: by a store into the field of the receiver, by a
// store into the field of the composite that is then copied over the receiver (`*s = T{…}`), or by copying a whole
// value that was not built field by field (`*l = ChainedLog(raw.auxLog)`).
func envelopeFillsReceiver(c *Ctx, rule string, fn *ssa.Function, T types.Type) {
	st := T.Underlying().(*types.Struct)
	recv := fn.Params[0]
	filled := map[string]bool{}
	whole := false
	var bases []ssa.Value
	bases = append(bases, recv)
	for _, b := range fn.Blocks {
		for _, ins := range b.Instrs {
			s, ok := ins.(*ssa.Store)
			if !ok || s.Addr != ssa.Value(recv) {
				continue
			}
			v := s.Val
			for {
				if cv, ok := v.(*ssa.ChangeType); ok {
					v = cv.X
					continue
				}
				break
			}
			if ld, ok := v.(*ssa.UnOp); ok && ld.Op == token.MUL {
				if al, ok := ld.X.(*ssa.Alloc); ok && types.Identical(al.Type().Underlying().(*types.Pointer).Elem(), T) {
					bases = append(bases, al)
					continue
				}
			}
			if _, zero := v.(*ssa.Const); zero {
				continue // `*s = T{…}` compiled as: zero the receiver, then store the listed fields
			}
			whole = true
		}
	}
	for _, base := range bases {
		for _, r := range *base.Referrers() {
			fa, ok := r.(*ssa.FieldAddr)
			if !ok {
				continue
			}
			for _, r2 := range *fa.Referrers() {
				if s, ok := r2.(*ssa.Store); ok && s.Addr == ssa.Value(fa) {
					if f := fieldOfAddr(fa); f != nil {
						filled[f.Name()] = true
					}
				}
			}
		}
	}
	for i := 0; i < st.NumFields(); i++ {
		f := st.Field(i)
		tag := reflect.StructTag(st.Tag(i)).Get("json")
		if tag == "-" || !f.Exported() {
			continue
		}
		key := typeShort(T) + ".UnmarshalJSON:decoded-" + f.Name() + "-reaches-the-receiver"
		c.NSites++
		if whole || filled[f.Name()] {
			c.ok(rule, key, fn.Pos(), "the field is stored into the receiver")
		} else {
			c.bad(rule, key, fn.Pos(), typeShort(T)+".UnmarshalJSON never stores field "+f.Name()+" of its receiver: the value written by encoding/json is lost when the entry is read back, the round trip changes the content and the recomputed hash differs")
		}
	}
}

// envelopeParsesFullWidth: identifiers are written as 64-bit integers (uint64 / *big.Int columns); a decoder that
// parses one with a smaller bit size refuses entries the writer produced.
func envelopeParsesFullWidth(c *Ctx, rule string, fn *ssa.Function, T types.Type) {
	k := 0
	seen := map[*ssa.Function]bool{fn: true}
	var scan func(g *ssa.Function, depth int)
	scan = func(g *ssa.Function, depth int) {
		allCalls(g, func(ci ssa.CallInstruction) {
			name := calleeFullName(ci)
			if name != "strconv.ParseUint" && name != "strconv.ParseInt" {
				// helpers of the repository the decoder hands its input to
				if h := staticCallee(ci); h != nil && depth < 2 && !seen[h] && len(h.Blocks) > 0 && strings.HasPrefix(fnPkgPath(origin(h)), modPath) {
					seen[h] = true
					scan(h, depth+1)
				}
				return
			}
			k++
			key := fmt.Sprintf("%s.UnmarshalJSON:%s#%d:parses-64-bits", typeShort(T), strings.TrimPrefix(name, "strconv."), k)
			bits, ok := constInt(ci.Common().Args[2])
			switch {
			case !ok:
				c.undecided(rule, key, ci.Pos(), "the bit size of the parse is not a constant")
			case bits == 64:
				c.ok(rule, key, ci.Pos(), "identifiers are parsed with the width they are written with (64 bits)")
			default:
				c.bad(rule, key, ci.Pos(), fmt.Sprintf("the decoder parses an integer written as a 64-bit value with bit size %d: an entry with a larger identifier cannot be read back (the log can no longer be replayed or verified)", bits))
			}
		})
	}
	scan(fn, 0)
}

func isGroundInstance(fn *ssa.Function) bool {
	for _, ta := range fn.TypeArgs() {
		if mentionsTypeParam(ta, 0) {
			return false
		}
	}
	return len(fn.TypeArgs()) > 0
}
