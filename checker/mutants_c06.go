package main

func init() {
	const cmdr = "internal/engine/command/commander.go"
	const ctxf = "internal/engine/command/context.go"
	const jobs = "internal/engine/utils/job/jobs.go"
	const bat = "internal/engine/utils/batching/batcher.go"
	const logs = "internal/storage/ledgerstore/logs.go"
	addMutants(
		Mutant{Property: "C06", Name: "run-acks-before-wait", File: ctxf,
			Old: "\t<-done\n\tlogger := logging.FromContext(ctx)", New: "\tgo func() { <-done }()\n\tlogger := logging.FromContext(ctx)", Expect: "R06a:(*internal/engine/command.executionContext).run:handoff#1:propagated-or-waited"},
		Mutant{Property: "C06", Name: "done-closed-at-handoff", File: ctxf,
			Old: "\tchainedLog := e.commander.appendLog(allocateTXID, logBuilder, func() {\n\t\tclose(done)\n\t})", New: "\tchainedLog := e.commander.appendLog(allocateTXID, logBuilder, func() {})\n\tclose(done)", Expect: "R06b:"},
		Mutant{Property: "C06", Name: "savemeta-bypasses-run", File: cmdr,
			Old: "\tcommander.monitor.SavedMetadata(ctx, targetType, fmt.Sprint(targetID), m)", New: "\tcommander.monitor.SavedMetadata(ctx, targetType, fmt.Sprint(targetID), m)\n\t_, _, _ = execContext.AppendLog(ctx, ledger.NewSetMetadataOnAccountLog(ledger.Now(), \"audit\", m))", Expect: "R06a:(*internal/engine/command.Commander).SaveMeta:handoff#1:propagated-or-waited"},
		Mutant{Property: "C06", Name: "worker-swallows-insert-error", File: jobs,
			Old: "\t\t\t\t\tif err := r.runner(ctx, job); err != nil {\n\t\t\t\t\t\tpanic(err)\n\t\t\t\t\t}", New: "\t\t\t\t\tif err := r.runner(ctx, job); err != nil {\n\t\t\t\t\t\tlogger.Errorf(\"job failed: %s\", err)\n\t\t\t\t\t}", Expect: "R06c:"},
		Mutant{Property: "C06", Name: "worker-error-returns", File: jobs,
			Old: "\t\t\t\t\tif err := r.runner(ctx, job); err != nil {\n\t\t\t\t\t\tpanic(err)\n\t\t\t\t\t}", New: "\t\t\t\t\tif err := r.runner(ctx, job); err != nil {\n\t\t\t\t\t\tlogger.Errorf(\"job failed: %s\", err)\n\t\t\t\t\t\treturn\n\t\t\t\t\t}", Expect: "R06d:"},
		Mutant{Property: "C06", Name: "run-loop-ignores-job-error", File: jobs,
			Old: "\t\tcase jobError := <-jobsErrors:\n\t\t\tpanic(jobError)", New: "\t\tcase jobError := <-jobsErrors:\n\t\t\tlogger.Error(jobError)", Expect: "R06d:"},
		Mutant{Property: "C06", Name: "terminated-at-dispatch", File: jobs,
			Old: "\t\t\t\tif job := r.nextJob(); job != nil {\n\t\t\t\t\tr.jobs <- job\n\t\t\t\t\tr.parkedWorkers.Add(-1)", New: "\t\t\t\tif job := r.nextJob(); job != nil {\n\t\t\t\t\t(*job).Terminated()\n\t\t\t\t\tr.jobs <- job\n\t\t\t\t\tr.parkedWorkers.Add(-1)", Expect: "R06c:"},
		Mutant{Property: "C06", Name: "callback-at-append", File: bat,
			Old: "\ts.mu.Unlock()\n\ts.Runner.Next()", New: "\ts.mu.Unlock()\n\ts.pending[len(s.pending)-1].callback()\n\ts.Runner.Next()", Expect: "R06c:"},
		Mutant{Property: "C06", Name: "insertlogs-outside-tx", File: logs,
			Old: "\treturn store.withTransaction(ctx, func(tx bun.Tx) error {\n\t\t// Beware: COPY", New: "\ttx, err := store.bucket.db.BeginTx(ctx, nil)\n\tif err != nil {\n\t\treturn err\n\t}\n\tdefer tx.Commit()\n\treturn func(tx bun.Tx) error {\n\t\t// Beware: COPY",
			Edits: []Edit{{File: logs, Old: "\t\treturn stmt.Close()\n\t})\n}", New: "\t\treturn stmt.Close()\n\t}(tx)\n}"}}, Expect: "R06e:InsertLogs:inside-one-transaction"},
		Mutant{Property: "C06", Name: "copy-flush-error-dropped", File: logs,
			Old: "\t\t_, err = stmt.Exec()\n\t\tif err != nil {\n\t\t\treturn storageerrors.PostgresError(err)\n\t\t}\n", New: "\t\t_, _ = stmt.Exec()\n", Expect: "R06e:InsertLogs:sql.Stmt).Exec:error-propagated"},
		Mutant{Property: "C06", Name: "error-after-handoff", File: cmdr,
			Old: "\t\t<-done\n\n\t\treturn chainedLog, done, nil", New: "\t\t<-done\n\t\tif ctx.Err() != nil {\n\t\t\treturn nil, nil, ctx.Err()\n\t\t}\n\n\t\treturn chainedLog, done, nil", Expect: "R06f:"},
	)
}
