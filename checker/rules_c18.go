package main

import (
	"fmt"
	"go/token"
	"go/types"

	"golang.org/x/tools/go/ssa"
)

const pkgV2 = modPath + "/internal/api/v2"

func init() {
	register("C18", propMeta{
		Level: "other",
		Explanation: "Loop structure of ProcessBulk decided over all paths through one iteration (hence for every sequence of elements, actions and outcomes): R18a every path from the loop header back to it, or to a return inside the loop, performs exactly one append to the result slice (directly or through the failure literal), and every return hands out that slice; R18b after a failure append the loop continues only through the true edge of continueOnFailure; " +
			"R18c the loop is a `range` over the bulk parameter itself (index −1,+1), contains no go statement, and backend calls are direct; R18d the failure literal sets the failure flag on every path and it is the value returned as second result; bulkHandler writes status 400 on every path where that flag may be true before encoding the body.",
		NotDecided:  "what each backend call does; the per-element error code mapping.",
		Trusted:     []string{"encoding/json decoding of the bulk body keeps element order"},
	}, runC18)
}

// cellIdentity maps an address (Alloc, or FreeVar bound to an Alloc of an enclosing function) to the Alloc.
func cellIdentity(addr ssa.Value) ssa.Value {
	switch a := addr.(type) {
	case *ssa.Alloc:
		return a
	case *ssa.FreeVar:
		fn := a.Parent()
		for i, fv := range fn.FreeVars {
			if fv != a || fn.Parent() == nil {
				continue
			}
			for _, b := range fn.Parent().Blocks {
				for _, ins := range b.Instrs {
					if mc, ok := ins.(*ssa.MakeClosure); ok && mc.Fn == fn && i < len(mc.Bindings) {
						return cellIdentity(mc.Bindings[i])
					}
				}
			}
		}
	}
	return nil
}

func loadOfCell(v ssa.Value) ssa.Value {
	if u, ok := v.(*ssa.UnOp); ok && u.Op == token.MUL {
		return cellIdentity(u.X)
	}
	return nil
}

func runC18(c *Ctx) {
	const rule = "R18a"
	fn := c.MustFn(rule, pkgV2, "ProcessBulk")
	if fn == nil {
		return
	}
	obl := newOblSet(c, rule)
	oblB := newOblSet(c, "R18b")
	oblC := newOblSet(c, "R18c")
	oblD := newOblSet(c, "R18d")
	defer obl.flush()
	defer oblB.flush()
	defer oblC.flush()
	defer oblD.flush()

	// result cells: the cells loaded by the final return
	var resCell, flagCell ssa.Value
	for _, b := range fn.Blocks {
		if ret, ok := b.Instrs[len(b.Instrs)-1].(*ssa.Return); ok && len(ret.Results) == 3 {
			if cell := loadOfCell(ret.Results[0]); cell != nil {
				resCell = cell
			}
			if cell := loadOfCell(ret.Results[1]); cell != nil {
				flagCell = cell
			}
		}
	}
	if resCell == nil || flagCell == nil {
		obl.undecided("ProcessBulk:result-cells", fn.Pos(), "ProcessBulk does not return (a load of a local result slice, a load of a local flag, …): outside the accepted shape")
		return
	}
	// the loop: range over the parameter `bulk`
	var bulkParam *ssa.Parameter
	for _, p := range fn.Params {
		if isNamed(p.Type(), pkgV2, "Bulk") {
			bulkParam = p
		}
	}
	var header *ssa.BasicBlock
	var idxPhi *ssa.Phi
	for _, b := range fn.Blocks {
		for _, ins := range b.Instrs {
			if ia, ok := ins.(*ssa.IndexAddr); ok && bulkParam != nil && ia.X == ssa.Value(bulkParam) {
				// index = phi + 1 with phi in a dominating block
				if bo, ok := ia.Index.(*ssa.BinOp); ok && bo.Op == token.ADD {
					if p, ok := bo.X.(*ssa.Phi); ok {
						if one, ok := constInt(bo.Y); ok && one == 1 {
							idxPhi, header = p, p.Block()
						}
					}
				}
			}
		}
	}
	kRange := "ProcessBulk:ranges-over-the-bulk-parameter-in-order"
	if header == nil {
		oblC.violate(kRange, fn.Pos(), "ProcessBulk does not iterate with `for … range bulk` over its parameter (index −1, +1): elements may be processed in another order or from another slice", nil)
		return
	}
	okPhi := false
	for _, e := range idxPhi.Edges {
		if n, ok := constInt(e); ok && n == -1 {
			okPhi = true
		}
	}
	nLoopHeaders := 0
	for _, b := range fn.Blocks {
		for _, ins := range b.Instrs {
			if p, ok := ins.(*ssa.Phi); ok && p.Comment == "rangeindex" {
				nLoopHeaders++
			}
		}
	}
	if okPhi && idxPhi.Comment == "rangeindex" {
		oblC.expect(kRange, header.Instrs[0].Pos(), "range loop over the bulk parameter")
	} else {
		oblC.violate(kRange, fn.Pos(), "the loop over bulk is not a plain range loop", nil)
	}
	// no go statement; backend calls are direct
	var lParam *ssa.Parameter
	for _, p := range fn.Params {
		if isNamed(p.Type(), modPath+"/internal/api/backend", "Ledger") {
			lParam = p
		}
	}
	nBackend := 0
	kGo := "ProcessBulk:no-concurrency"
	oblC.expect(kGo, fn.Pos(), "no go statement in ProcessBulk or its literals; backend calls are plain calls")
	for _, f := range withLiterals(fn) {
		for _, b := range f.Blocks {
			for _, ins := range b.Instrs {
				switch x := ins.(type) {
				case *ssa.Go:
					oblC.violate(kGo, x.Pos(), "a go statement in the bulk processor: elements are no longer executed strictly in order", nil)
				case *ssa.Defer:
					if lParam != nil && x.Call.IsInvoke() && x.Call.Value == ssa.Value(lParam) {
						oblC.violate(kGo, x.Pos(), "a backend call is deferred: it runs after the following elements", nil)
					}
				case *ssa.Call:
					if lParam != nil && x.Call.IsInvoke() && x.Call.Value == ssa.Value(lParam) {
						nBackend++
						// must be inside the loop (dominated by the header)
						if !header.Dominates(x.Block()) {
							oblC.violate(kGo, x.Pos(), "a backend call outside the element loop", nil)
						}
					}
				}
			}
		}
	}
	if nBackend < 4 {
		oblC.undecided("floor:backend-calls", fn.Pos(), fmt.Sprintf("expected the four backend write calls in ProcessBulk, found %d", nBackend))
	}

	// the failure literal(s): append to result cell and store true into the flag cell
	isAppendStore := func(ins ssa.Instruction) bool {
		st, ok := ins.(*ssa.Store)
		if !ok || cellIdentity(st.Addr) != resCell {
			return false
		}
		call, ok := st.Val.(*ssa.Call)
		if !ok {
			return false
		}
		bi, ok := call.Call.Value.(*ssa.Builtin)
		return ok && bi.Name() == "append" && loadOfCell(call.Call.Args[0]) == resCell
	}
	isFlagStore := func(ins ssa.Instruction) (bool, bool) {
		st, ok := ins.(*ssa.Store)
		if !ok || cellIdentity(st.Addr) != flagCell {
			return false, false
		}
		b, isConst := constBool(st.Val)
		return true, isConst && b
	}
	failureLits := map[*ssa.Function]bool{}
	for _, lit := range fn.AnonFuncs {
		app := false
		for _, b := range lit.Blocks {
			for _, ins := range b.Instrs {
				if isAppendStore(ins) {
					app = true
				}
			}
		}
		if !app {
			continue
		}
		// every path: exactly one append and the flag set to true
		key := fnName(lit) + ":one-append-and-flag-set"
		oblD.expect(key, lit.Pos(), "the failure literal appends exactly one result and sets the failure flag on every path")
		pr := &PathRule{
			Step: func(pc *PathCtx, s uint64, ins ssa.Instruction) uint64 {
				if isAppendStore(ins) {
					if s&3 < 2 {
						s++
					}
				}
				if isF, isTrue := isFlagStore(ins); isF {
					if isTrue {
						s |= 4
					} else {
						s &^= 4
					}
				}
				return s
			},
			Exit: func(pc *PathCtx, s uint64, ins ssa.Instruction) {
				if _, ok := ins.(*ssa.Return); ok {
					if s&3 != 1 {
						obl.violate(key, ins.Pos(), fmt.Sprintf("the failure literal appends %d results on a path", s&3), pc.Trail())
					}
					if s&4 == 0 {
						oblD.violate(key, ins.Pos(), "the failure literal returns without setting the failure flag: the response does not signal the failure", pc.Trail())
					}
				}
			},
		}
		c.RunPaths(lit, 0, pr)
		failureLits[lit] = true
	}
	if len(failureLits) == 0 {
		oblD.undecided("floor:failure-literal", fn.Pos(), "no literal of ProcessBulk appends a failure result")
	}
	// any other store to the flag cell must be the initialisation to false before the loop
	for _, f := range withLiterals(fn) {
		for _, b := range f.Blocks {
			for _, ins := range b.Instrs {
				if isF, isTrue := isFlagStore(ins); isF && !isTrue {
					if f != fn || header.Dominates(b) {
						oblD.violate("ProcessBulk:flag-never-reset", ins.Pos(), "the failure flag is reset after it may have been set", nil)
					}
				}
			}
		}
	}

	// the iteration machine
	const (
		cntMask = 3
		inIter  = 4
		failed  = 8
		cont    = 16
	)
	kOne := "ProcessBulk:exactly-one-result-per-element"
	kStop := "ProcessBulk:stops-at-first-failure"
	kRet := "ProcessBulk:returns-the-result-slice"
	obl.expect(kOne, header.Instrs[0].Pos(), "every path through one iteration appends exactly one result")
	oblB.expect(kStop, header.Instrs[0].Pos(), "after a failing element the loop continues only when continueOnFailure is true")
	obl.expect(kRet, fn.Pos(), "every return hands out the result slice")
	var contParam *ssa.Parameter
	for _, p := range fn.Params {
		if bt, ok := p.Type().Underlying().(*types.Basic); ok && bt.Kind() == types.Bool {
			contParam = p
		}
	}
	pr := &PathRule{
		Inline: func(ci ssa.CallInstruction) []*ssa.Function {
			var out []*ssa.Function
			for _, f := range c.CalleesOf(ci) {
				if f.Parent() == fn {
					out = append(out, f)
				}
			}
			return out
		},
		Step: func(pc *PathCtx, s uint64, ins ssa.Instruction) uint64 {
			if isAppendStore(ins) {
				if s&cntMask < 3 {
					s++
				}
				if failureLits[pc.Fn()] {
					s |= failed
				}
				pc.Note("result appended at %s", c.pos(ins.Pos()))
			}
			return s
		},
		Edge: func(pc *PathCtx, s uint64, from *ssa.BasicBlock, si int) (uint64, bool) {
			if pc.Fn() != fn {
				return s, true
			}
			for _, f := range pc.edgeFacts(from, si) {
				if contParam != nil && f.X == ssa.Value(contParam) {
					if b, ok := constBool(f.Y); ok && b == f.Eq {
						s |= cont
					}
				}
			}
			to := from.Succs[si]
			if to == header && from != fn.Blocks[0] && header.Dominates(from) {
				// back edge: one iteration completed
				if s&inIter != 0 && s&cntMask != 1 {
					obl.violate(kOne, from.Instrs[len(from.Instrs)-1].Pos(), fmt.Sprintf("a path through one iteration of the element loop appends %d results: positions of the following results shift (an element is answered twice or not at all)", s&cntMask), pc.Trail())
				}
				if s&failed != 0 && s&cont == 0 {
					oblB.violate(kStop, from.Instrs[len(from.Instrs)-1].Pos(), "the loop goes on to the next element after a failure without having tested continueOnFailure", pc.Trail())
				}
				s &^= cntMask | inIter | failed | cont
			}
			if from == header && to != header && header.Dominates(to) && len(header.Succs) == 2 && to == header.Succs[0] {
				s |= inIter
				s &^= cntMask | failed | cont
			}
			return s, true
		},
		Exit: func(pc *PathCtx, s uint64, ins ssa.Instruction) {
			ret, ok := ins.(*ssa.Return)
			if !ok || pc.Fn() != fn {
				return
			}
			if loadOfCell(ret.Results[0]) != resCell {
				obl.violate(kRet, ret.Pos(), "a return of ProcessBulk does not hand out the result slice: the results of the elements already executed are dropped", pc.Trail())
			}
			if loadOfCell(ret.Results[1]) != flagCell {
				oblD.violate("ProcessBulk:returns-the-failure-flag", ret.Pos(), "a return of ProcessBulk does not hand out the failure flag", pc.Trail())
			}
			if s&inIter != 0 && s&cntMask != 1 {
				obl.violate(kOne, ret.Pos(), fmt.Sprintf("ProcessBulk returns in the middle of an element after appending %d results for it", s&cntMask), pc.Trail())
			}
		},
	}
	oblD.expect("ProcessBulk:returns-the-failure-flag", fn.Pos(), "every return hands out the failure flag")
	c.RunPaths(fn, 0, pr)

	// bulkHandler: 400 whenever the flag may be true
	h := c.MustFn("R18d", pkgV2, "bulkHandler")
	if h == nil {
		return
	}
	var pb *ssa.Call
	allCalls(h, func(ci ssa.CallInstruction) {
		if call, ok := ci.(*ssa.Call); ok && callsFn(ci, fn) {
			pb = call
		}
	})
	kH := "bulkHandler:status-400-when-an-element-failed"
	if pb == nil {
		oblD.undecided(kH, h.Pos(), "bulkHandler does not call ProcessBulk")
		return
	}
	oblD.expect(kH, pb.Pos(), "on every path where the failure flag may be true, WriteHeader(400) precedes the encoding of the body")
	const (
		flagFalse = 1
		wrote400  = 2
		called    = 4
	)
	hp := &PathRule{
		Step: func(pc *PathCtx, s uint64, ins ssa.Instruction) uint64 {
			call, ok := ins.(*ssa.Call)
			if !ok {
				return s
			}
			if call == pb {
				return called
			}
			if call.Call.IsInvoke() && call.Call.Method.Name() == "WriteHeader" {
				if n, ok := constInt(call.Call.Args[0]); ok && n == 400 {
					return s | wrote400
				}
				if s&called != 0 && s&flagFalse == 0 {
					oblD.violate(kH, call.Pos(), "a status other than 400 is written on a path where an element may have failed", pc.Trail())
				}
			}
			n := calleeFullName(call)
			if n == "(*encoding/json.Encoder).Encode" || (call.Call.IsInvoke() && call.Call.Method.Name() == "Write") {
				if s&called != 0 && s&(flagFalse|wrote400) == 0 {
					oblD.violate(kH, call.Pos(), "the response body is written with the default status 200 on a path where the failure flag returned by ProcessBulk may be true", pc.Trail())
				}
			}
			return s
		},
		Edge: func(pc *PathCtx, s uint64, from *ssa.BasicBlock, si int) (uint64, bool) {
			for _, f := range pc.edgeFacts(from, si) {
				if e, ok := f.X.(*ssa.Extract); ok && e.Tuple == ssa.Value(pb) && e.Index == 1 {
					if b, ok := constBool(f.Y); ok && (b == f.Eq) == false {
						s |= flagFalse
					}
				}
			}
			return s, true
		},
	}
	c.RunPaths(h, 0, hp)
}
