package main

import (
	"fmt"
	"go/token"
	"go/types"
	"strings"

	"golang.org/x/tools/go/ssa"
)

const pkgV2 = modPath + "/internal/api/v2"

func init() {
	register("C18", propMeta{
		Level: "other",
		Explanation: "Loop structure of ProcessBulk decided over all paths through one iteration (hence for every sequence of elements, actions and outcomes): R18a every path from the loop header back to it, or to a return inside the loop, performs exactly one append to the result slice (directly or through the failure literal), and every return hands out that slice; R18b after a failure append the loop continues only through the true edge of continueOnFailure; " +
			"R18c the loop is a `range` over the bulk parameter itself (index −1,+1), contains no go statement, and backend calls are direct; R18d the failure literal sets the failure flag on every path and it is the value returned as second result; bulkHandler writes status 400 on every path where that flag may be true before encoding the body. R18f each element is decoded into a value allocated in its iteration; R18j the keys the OpenAPI document declares for every bulk element (V2BaseBulkElement: action, ik) are json keys of v2.Element; R18i the readers of boolean query parameters (api.QueryParamBool reads continueOnFailure) read none of the negative spellings 0/false/no/off as true; R18h the bulk handler returns after an error answer: on no path does an error responder precede ProcessBulk or a second answer. R18g no argument of a backend.Ledger call made in the loop reads a local that is declared before the loop and assigned inside it without being re-assigned before the call in every iteration (an element never runs with the idempotency key or parameters left by the elements before it).",
		NotDecided:  "what each backend call does; the per-element error code mapping.",
		Trusted:     []string{"encoding/json decoding of the bulk body keeps element order"},
	}, runC18)
}

// cellIdentity maps an address (Alloc, or FreeVar bound to an Alloc of an enclosing function) to the Alloc.
// fieldCellRep: one representative value per field of a collector object of package v2 (`bulkResults.results`,
// `.hasErrors`): the field is the cell, whichever function reads or writes it.
var fieldCellRep = map[*types.Var]ssa.Value{}

func cellIdentity(addr ssa.Value) ssa.Value {
	switch a := addr.(type) {
	case *ssa.FieldAddr:
		f := fieldOfAddr(a)
		if f == nil || f.Pkg() == nil || f.Pkg().Path() != pkgV2 {
			return nil
		}
		if rep, ok := fieldCellRep[f]; ok {
			return rep
		}
		fieldCellRep[f] = a
		return a
	case *ssa.Alloc:
		return a
	case *ssa.FreeVar:
		fn := a.Parent()
		for i, fv := range fn.FreeVars {
			if fv != a || fn.Parent() == nil {
				continue
			}
			for _, b := range fn.Parent().Blocks {
				for _, ins := range b.Instrs {
					if mc, ok := ins.(*ssa.MakeClosure); ok && mc.Fn == fn && i < len(mc.Bindings) {
						return cellIdentity(mc.Bindings[i])
					}
				}
			}
		}
	}
	return nil
}

func loadOfCell(v ssa.Value) ssa.Value {
	if u, ok := v.(*ssa.UnOp); ok && u.Op == token.MUL {
		return cellIdentity(u.X)
	}
	return nil
}

func runC18(c *Ctx) {
	ruleFreshDecode(c, "R18f")
	ruleLoopCarriedArgs(c, "R18g", 4)
	ruleBoolReaders(c, "R18i", 1)
	ruleBulkElementKeysDocumented(c, "R18j")
	ruleResultsAppendedInOrder(c, "R18k")
	ruleContinueOnFailureIsRead(c, "R18l")
	ruleAnswerEndsHandler(c, "R18h", func(fn *ssa.Function) bool { return strings.Contains(strings.ToLower(fn.Name()), "bulk") }, 1)
	const rule = "R18a"
	fn := c.MustFn(rule, pkgV2, "ProcessBulk")
	if fn == nil {
		return
	}
	obl := newOblSet(c, rule)
	oblB := newOblSet(c, "R18b")
	oblC := newOblSet(c, "R18c")
	oblD := newOblSet(c, "R18d")
	oblE := newOblSet(c, "R18e")
	defer obl.flush()
	defer oblB.flush()
	defer oblC.flush()
	defer oblD.flush()
	defer oblE.flush()

	// The result slice and the failure flag, in whichever form the function keeps them: local cells (captured by a
	// literal) or plain SSA values merged by phis. A value set is grown backwards from the returned values.
	type valueSet struct {
		vals  map[ssa.Value]bool
		cells map[ssa.Value]bool
	}
	grow := func(idx int) *valueSet {
		vs := &valueSet{vals: map[ssa.Value]bool{}, cells: map[ssa.Value]bool{}}
		var work []ssa.Value
		for _, b := range fn.Blocks {
			if ret, ok := b.Instrs[len(b.Instrs)-1].(*ssa.Return); ok && idx < len(ret.Results) && !isNilConst(ret.Results[idx]) {
				work = append(work, ret.Results[idx])
			}
		}
		for len(work) > 0 {
			v := work[len(work)-1]
			work = work[:len(work)-1]
			if v == nil || vs.vals[v] {
				continue
			}
			vs.vals[v] = true
			switch x := v.(type) {
			case *ssa.Phi:
				work = append(work, x.Edges...)
			case *ssa.UnOp:
				if cell := loadOfCell(x); cell != nil && !vs.cells[cell] {
					vs.cells[cell] = true
					for _, f := range append(withLiterals(fn), packageHelpersOf(fn, pkgV2)...) {
						for _, b := range f.Blocks {
							for _, ins := range b.Instrs {
								if st, ok := ins.(*ssa.Store); ok && cellIdentity(st.Addr) == cell {
									work = append(work, st.Val)
								}
							}
						}
					}
				}
			case *ssa.Call:
				if bi, ok := x.Call.Value.(*ssa.Builtin); ok && bi.Name() == "append" {
					work = append(work, x.Call.Args[0])
				}
			case *ssa.Slice:
				work = append(work, x.X)
			}
		}
		return vs
	}
	res := grow(0)
	flag := grow(1)
	inSet := func(vs *valueSet, v ssa.Value) bool {
		if vs.vals[v] {
			return true
		}
		if cell := loadOfCell(v); cell != nil && vs.cells[cell] {
			return true
		}
		return false
	}
	if len(res.vals) == 0 || len(flag.vals) == 0 {
		obl.undecided("ProcessBulk:results", fn.Pos(), "ProcessBulk does not return a result slice and a failure flag")
		return
	}
	isAppend := func(ins ssa.Instruction) bool {
		call, ok := ins.(*ssa.Call)
		if !ok {
			return false
		}
		bi, ok := call.Call.Value.(*ssa.Builtin)
		return ok && bi.Name() == "append" && inSet(res, call.Call.Args[0]) && (res.vals[call] || storedIntoCells(call, res.cells))
	}
	// the loop: range over the parameter `bulk`
	var bulkParam *ssa.Parameter
	for _, p := range fn.Params {
		if isNamed(p.Type(), pkgV2, "Bulk") {
			bulkParam = p
		}
	}
	var header *ssa.BasicBlock
	var idxPhi *ssa.Phi
	for _, b := range fn.Blocks {
		for _, ins := range b.Instrs {
			if ia, ok := ins.(*ssa.IndexAddr); ok && bulkParam != nil && ia.X == ssa.Value(bulkParam) {
				if bo, ok := ia.Index.(*ssa.BinOp); ok && bo.Op == token.ADD {
					if p, ok := bo.X.(*ssa.Phi); ok {
						if one, ok := constInt(bo.Y); ok && one == 1 {
							idxPhi, header = p, p.Block()
						}
					}
				}
			}
		}
	}
	kRange := "ProcessBulk:ranges-over-the-bulk-parameter-in-order"
	if header == nil {
		oblC.violate(kRange, fn.Pos(), "ProcessBulk does not iterate with `for … range bulk` over its parameter (index −1, +1): elements may be processed in another order or from another slice", nil)
		return
	}
	okPhi := false
	for _, e := range idxPhi.Edges {
		if n, ok := constInt(e); ok && n == -1 {
			okPhi = true
		}
	}
	if okPhi && idxPhi.Comment == "rangeindex" {
		oblC.expect(kRange, header.Instrs[0].Pos(), "range loop over the bulk parameter")
	} else {
		oblC.violate(kRange, fn.Pos(), "the loop over bulk is not a plain range loop", nil)
	}
	// no go statement; backend calls are direct and inside the loop
	var lParam *ssa.Parameter
	for _, p := range fn.Params {
		if isNamed(p.Type(), modPath+"/internal/api/backend", "Ledger") {
			lParam = p
		}
	}
	isBackend := func(cc *ssa.CallCommon) bool {
		return lParam != nil && cc.IsInvoke() && cc.Value == ssa.Value(lParam)
	}
	var backendCalls []*ssa.Call
	kGo := "ProcessBulk:no-concurrency"
	oblC.expect(kGo, fn.Pos(), "no go statement in ProcessBulk or its literals; backend calls are plain calls")
	for _, f := range withLiterals(fn) {
		for _, b := range f.Blocks {
			for _, ins := range b.Instrs {
				switch x := ins.(type) {
				case *ssa.Go:
					oblC.violate(kGo, x.Pos(), "a go statement in the bulk processor: elements are no longer executed strictly in order", nil)
				case *ssa.Defer:
					if isBackend(&x.Call) {
						oblC.violate(kGo, x.Pos(), "a backend call is deferred: it runs after the following elements", nil)
					}
				case *ssa.Call:
					if isBackend(&x.Call) {
						backendCalls = append(backendCalls, x)
						if f != fn || !header.Dominates(x.Block()) {
							oblC.violate(kGo, x.Pos(), "a backend call outside the element loop", nil)
						}
					}
				}
			}
		}
	}
	// … or inside per-action helpers that the loop calls for each element (plain calls, no go/defer of a backend call)
	ledgerIface := c.Named(modPath+"/internal/api/backend", "Ledger")
	loopBody := map[*ssa.BasicBlock]bool{}
	for _, b := range fn.Blocks {
		if header.Dominates(b) {
			loopBody[b] = true
		}
	}
	nHelperCalls := 0
	for _, lr := range loopReached(c, loopBody) {
		for _, b := range lr.fn.Blocks {
			for _, ins := range b.Instrs {
				switch x := ins.(type) {
				case *ssa.Go:
					oblC.violate(kGo, x.Pos(), "a go statement in a helper of the bulk processor: elements are no longer executed strictly in order", nil)
				case *ssa.Defer:
					if x.Call.IsInvoke() && namedOf(x.Call.Value.Type()) == ledgerIface {
						oblC.violate(kGo, x.Pos(), "a backend call is deferred", nil)
					}
				case *ssa.Call:
					if x.Call.IsInvoke() && ledgerIface != nil && namedOf(x.Call.Value.Type()) == ledgerIface {
						nHelperCalls++
					}
				}
			}
		}
	}
	if len(backendCalls)+nHelperCalls < 4 {
		oblC.undecided("floor:backend-calls", fn.Pos(), fmt.Sprintf("expected the four backend write calls in ProcessBulk, found %d", len(backendCalls)+nHelperCalls))
	}
	// the flag is never reset once the loop runs
	for _, f := range withLiterals(fn) {
		for _, b := range f.Blocks {
			for _, ins := range b.Instrs {
				if st, ok := ins.(*ssa.Store); ok && flag.cells[cellIdentity(st.Addr)] {
					if bv, isC := constBool(st.Val); isC && !bv && (f != fn || header.Dominates(b)) {
						oblD.violate("ProcessBulk:flag-never-reset", st.Pos(), "the failure flag is reset after it may have been set", nil)
					}
				}
			}
		}
	}
	for v := range flag.vals {
		if phi, ok := v.(*ssa.Phi); ok && header.Dominates(phi.Block()) && phi.Block() != header {
			for _, e := range phi.Edges {
				if bv, isC := constBool(e); isC && !bv {
					oblD.violate("ProcessBulk:flag-never-reset", phi.Pos(), "the failure flag is reset after it may have been set", nil)
				}
			}
		}
	}
	oblD.expect("ProcessBulk:flag-never-reset", fn.Pos(), "the failure flag only goes from false to true")

	// error results of the calls whose failure must become a failed element
	errOf := map[ssa.Value]string{} // error value -> description
	for _, call := range backendCalls {
		sig := call.Call.Signature()
		ei := errResultIdx(sig)
		if ei < 0 {
			continue
		}
		var ev ssa.Value
		if sig.Results().Len() == 1 {
			ev = call
		} else {
			for _, r := range *call.Referrers() {
				if e, ok := r.(*ssa.Extract); ok && e.Index == ei {
					ev = e
				}
			}
		}
		name := "backend." + call.Call.Method.Name()
		if ev == nil || !errorIsUsed(call) {
			oblE.violate("ProcessBulk:"+name+":failure-becomes-a-failed-element", call.Pos(), "the error of "+name+" is dropped: a failing element is answered as a success", nil)
			continue
		}
		errOf[ev] = name
		oblE.expect("ProcessBulk:"+name+":failure-becomes-a-failed-element", call.Pos(), "on the error edge of the call the element is answered as failed (failure flag set) before the iteration ends")
	}
	for _, b := range fn.Blocks {
		if !header.Dominates(b) {
			continue
		}
		for _, ins := range b.Instrs {
			if call, ok := ins.(*ssa.Call); ok && calleeFullName(call) == "encoding/json.Unmarshal" {
				errOf[call] = "json.Unmarshal"
			}
		}
	}

	// the iteration machine
	const (
		cntMask   = 3
		inIter    = 4
		failed    = 8 // the failure flag was set during this iteration
		cont      = 16
		errSeen   = 32
		errNilCl  = 64  // the merged error variable currently holds nil on this path
		errSetCl  = 128 // … currently holds a non-nil error on this path
		errClMask = errNilCl | errSetCl
	)
	kOne := "ProcessBulk:exactly-one-result-per-element"
	kStop := "ProcessBulk:stops-at-first-failure"
	kRet := "ProcessBulk:returns-the-result-slice"
	kDec := "ProcessBulk:undecodable-element-is-a-failed-element"
	obl.expect(kOne, header.Instrs[0].Pos(), "every path through one iteration appends exactly one result")
	oblB.expect(kStop, header.Instrs[0].Pos(), "after a failing element the loop continues only when continueOnFailure is true")
	obl.expect(kRet, fn.Pos(), "every return hands out the result slice")
	oblE.expect(kDec, fn.Pos(), "a decoding error makes the element a failed element")
	oblD.expect("ProcessBulk:returns-the-failure-flag", fn.Pos(), "every return hands out the failure flag")
	var contParam *ssa.Parameter
	for _, p := range fn.Params {
		if bt, ok := p.Type().Underlying().(*types.Basic); ok && bt.Kind() == types.Bool {
			contParam = p
		}
	}
	// per error value: known nil / known non-nil on the current path (bits 16.. of the state)
	errIdx := map[ssa.Value]uint{}
	for v := range errOf {
		if len(errIdx) < 20 {
			errIdx[v] = uint(len(errIdx))
		}
	}
	knownNil := func(v ssa.Value) uint64 {
		if i, ok := errIdx[v]; ok {
			return 1 << (16 + 2*i)
		}
		return 0
	}
	knownSet := func(v ssa.Value) uint64 {
		if i, ok := errIdx[v]; ok {
			return 1 << (17 + 2*i)
		}
		return 0
	}
	const perValueMask = uint64(0xFFFFFFFFFF) << 16
	var errWhat string
	endOfIteration := func(pc *PathCtx, s uint64, pos token.Pos, returning bool) {
		if s&inIter == 0 {
			return
		}
		if s&cntMask != 1 {
			what := "goes on to the next element"
			if returning {
				what = "returns"
			}
			obl.violate(kOne, pos, fmt.Sprintf("a path through one iteration of the element loop %s after appending %d results: positions of the results shift (an element is answered twice or not at all)", what, s&cntMask), pc.Trail())
		}
		if s&errSeen != 0 && s&failed == 0 {
			k := kDec
			if strings.HasPrefix(errWhat, "backend.") {
				k = "ProcessBulk:" + errWhat + ":failure-becomes-a-failed-element"
			}
			oblE.violate(k, pos, "on a path where "+errWhat+" returned an error the element is not answered as failed (the failure flag is not set): the response reports success for an element that failed, and does not stop the bulk", pc.Trail())
		}
		if !returning && s&failed != 0 && s&cont == 0 {
			oblB.violate(kStop, pos, "the loop goes on to the next element after a failure without having tested continueOnFailure", pc.Trail())
		}
	}
	pr := &PathRule{
		Inline: func(ci ssa.CallInstruction) []*ssa.Function {
			var out []*ssa.Function
			for _, f := range c.CalleesOf(ci) {
				if f.Parent() == fn {
					out = append(out, f)
				}
			}
			// a method of the result collector (`results.addError(code, err)`)
			if g := staticCallee(ci); g != nil && len(out) == 0 && len(g.Blocks) > 0 && fnPkgPath(origin(g)) == pkgV2 && g.Signature.Recv() != nil && g != fn {
				touches := false
				for _, b := range g.Blocks {
					for _, ins := range b.Instrs {
						if st, ok := ins.(*ssa.Store); ok {
							if id := cellIdentity(st.Addr); id != nil && (res.cells[id] || flag.cells[id]) {
								touches = true
							}
						}
					}
				}
				if touches {
					out = append(out, g)
				}
			}
			return out
		},
		Step: func(pc *PathCtx, s uint64, ins ssa.Instruction) uint64 {
			if isAppend(ins) {
				if s&cntMask < 3 {
					s++
				}
				pc.Note("result appended at %s", c.pos(ins.Pos()))
			}
			if st, ok := ins.(*ssa.Store); ok && flag.cells[cellIdentity(st.Addr)] {
				if bv, isC := constBool(st.Val); isC && bv {
					s |= failed
				}
			}
			return s
		},
		Edge: func(pc *PathCtx, s uint64, from *ssa.BasicBlock, si int) (uint64, bool) {
			if pc.Fn() != fn {
				return s, true
			}
			for _, f := range pc.edgeFacts(from, si) {
				if contParam != nil && f.X == ssa.Value(contParam) {
					if b, ok := constBool(f.Y); ok && b == f.Eq {
						s |= cont
					}
				}
				if what, ok := errOf[f.X]; ok && isNilConst(f.Y) {
					if !f.Eq {
						s |= errSeen | knownSet(f.X)
						errWhat = what
					} else {
						s |= knownNil(f.X)
					}
				}
			}
			to := from.Succs[si]
			// value form of the error variable: a test of an error-typed phi is decided by what flowed into it on
			// this path (nil constant / a value known to be a non-nil error); contradictory edges are infeasible
			for _, f := range pc.edgeFacts(from, si) {
				if phi, ok := f.X.(*ssa.Phi); ok && isErrorType(phi.Type()) && isNilConst(f.Y) {
					if f.Eq && s&errSetCl != 0 {
						return s, false
					}
					if !f.Eq && s&errNilCl != 0 {
						return s, false
					}
				}
			}
			for _, ins := range to.Instrs {
				phi, ok := ins.(*ssa.Phi)
				if !ok {
					break
				}
				if !isErrorType(phi.Type()) {
					continue
				}
				for pi, pred := range to.Preds {
					if pred != from || pi >= len(phi.Edges) {
						continue
					}
					in := phi.Edges[pi]
					switch {
					case isNilConst(in):
						s = s&^errClMask | errNilCl
					case nonNilError(c, in, 0) || (knownSet(in) != 0 && s&knownSet(in) != 0):
						s = s&^errClMask | errSetCl
					case knownNil(in) != 0 && s&knownNil(in) != 0:
						s = s&^errClMask | errNilCl
					default:
						if _, isPhi := in.(*ssa.Phi); !isPhi {
							s &^= errClMask
						}
					}
				}
			}
			// value form of the flag: a phi edge carrying the constant true
			for _, ins := range to.Instrs {
				phi, ok := ins.(*ssa.Phi)
				if !ok {
					break
				}
				if !flag.vals[phi] {
					continue
				}
				for pi, pred := range to.Preds {
					if pred == from && pi < len(phi.Edges) {
						if bv, isC := constBool(phi.Edges[pi]); isC && bv {
							s |= failed
						}
					}
				}
			}
			if to == header && from != fn.Blocks[0] && header.Dominates(from) {
				endOfIteration(pc, s, from.Instrs[len(from.Instrs)-1].Pos(), false)
				s &^= cntMask | inIter | failed | cont | errSeen | errClMask | perValueMask
			}
			if from == header && to != header && header.Dominates(to) && len(header.Succs) == 2 && to == header.Succs[0] {
				s |= inIter
				s &^= cntMask | failed | cont | errSeen | errClMask | perValueMask
			}
			return s, true
		},
		Exit: func(pc *PathCtx, s uint64, ins ssa.Instruction) {
			ret, ok := ins.(*ssa.Return)
			if !ok || pc.Fn() != fn {
				return
			}
			if !inSet(res, ret.Results[0]) {
				obl.violate(kRet, ret.Pos(), "a return of ProcessBulk does not hand out the result slice: the results of the elements already executed are dropped", pc.Trail())
			}
			if !inSet(flag, ret.Results[1]) {
				if bv, isC := constBool(ret.Results[1]); !(isC && bv) {
					oblD.violate("ProcessBulk:returns-the-failure-flag", ret.Pos(), "a return of ProcessBulk does not hand out the failure flag", pc.Trail())
				}
			}
			if bv, isC := constBool(ret.Results[1]); isC && bv {
				s |= failed // value form: `return ret, true, nil`
			}
			endOfIteration(pc, s, ret.Pos(), true)
		},
	}
	c.RunPaths(fn, 0, pr)

	// bulkHandler: 400 whenever the flag may be true
	h := c.MustFn("R18d", pkgV2, "bulkHandler")
	if h == nil {
		return
	}
	var pb *ssa.Call
	allCalls(h, func(ci ssa.CallInstruction) {
		if call, ok := ci.(*ssa.Call); ok && callsFn(ci, fn) {
			pb = call
		}
	})
	kH := "bulkHandler:status-400-when-an-element-failed"
	if pb == nil {
		oblD.undecided(kH, h.Pos(), "bulkHandler does not call ProcessBulk")
		return
	}
	oblD.expect(kH, pb.Pos(), "on every path where the failure flag may be true, WriteHeader(400) precedes the encoding of the body")
	const (
		flagFalse = 1
		wrote400  = 2
		called    = 4
	)
	hp := &PathRule{
		Step: func(pc *PathCtx, s uint64, ins ssa.Instruction) uint64 {
			call, ok := ins.(*ssa.Call)
			if !ok {
				return s
			}
			if call == pb {
				return called
			}
			if call.Call.IsInvoke() && call.Call.Method.Name() == "WriteHeader" {
				if n, ok := constInt(call.Call.Args[0]); ok && n == 400 {
					return s | wrote400
				}
				if s&called != 0 && s&flagFalse == 0 {
					oblD.violate(kH, call.Pos(), "a status other than 400 is written on a path where an element may have failed", pc.Trail())
				}
			}
			n := calleeFullName(call)
			if n == "(*encoding/json.Encoder).Encode" || (call.Call.IsInvoke() && call.Call.Method.Name() == "Write") {
				if s&called != 0 && s&(flagFalse|wrote400) == 0 {
					oblD.violate(kH, call.Pos(), "the response body is written with the default status 200 on a path where the failure flag returned by ProcessBulk may be true", pc.Trail())
				}
			}
			return s
		},
		Edge: func(pc *PathCtx, s uint64, from *ssa.BasicBlock, si int) (uint64, bool) {
			for _, f := range pc.edgeFacts(from, si) {
				if e, ok := f.X.(*ssa.Extract); ok && e.Tuple == ssa.Value(pb) && e.Index == 1 {
					if b, ok := constBool(f.Y); ok && (b == f.Eq) == false {
						s |= flagFalse
					}
				}
			}
			return s, true
		},
	}
	c.RunPaths(h, 0, hp)
}

// storedIntoCells: is v stored into one of the cells?
func storedIntoCells(v ssa.Value, cells map[ssa.Value]bool) bool {
	for _, r := range *v.Referrers() {
		if st, ok := r.(*ssa.Store); ok && st.Val == v && cells[cellIdentity(st.Addr)] {
			return true
		}
	}
	return false
}

// nonNilError: v is certainly a non-nil error: built by an error constructor, a concrete value boxed into the
// interface, or the result of a repository function whose every return is such a value.
func nonNilError(c *Ctx, v ssa.Value, depth int) bool {
	if depth > 3 || v == nil {
		return false
	}
	switch x := v.(type) {
	case *ssa.MakeInterface:
		return true
	case *ssa.Call:
		switch calleeFullName(x) {
		case "fmt.Errorf", "errors.New", "github.com/pkg/errors.New", "github.com/pkg/errors.Errorf":
			return true
		}
		f := staticCallee(x)
		if f == nil || len(f.Blocks) == 0 || !inRepo(fnPkgPath(f)) {
			return false
		}
		ei := errResultIdx(f.Signature)
		if ei < 0 || f.Signature.Results().Len() != 1 {
			return false
		}
		for _, b := range f.Blocks {
			if ret, ok := b.Instrs[len(b.Instrs)-1].(*ssa.Return); ok {
				if !nonNilError(c, ret.Results[ei], depth+1) {
					return false
				}
			}
		}
		return true
	case *ssa.Phi:
		for _, e := range x.Edges {
			if !nonNilError(c, e, depth+1) {
				return false
			}
		}
		return len(x.Edges) > 0
	}
	return false
}
