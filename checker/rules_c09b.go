package main

// The posting→script translation (TxToScriptData), read through string expressions (strexpr.go) instead of
// fixed call shapes, so that Sprintf, concatenation and strconv forms of the same text are the same thing.
//
//  R09a provenance: every dynamic piece of a text written into the script is an integer or the name of a
//       generated variable; names are a constant prefix plus an integer that is unique per registration
//       (a counter advanced with the registration, or len() of the map registered into), and two
//       registration sites sharing a prefix share the counter.
//  R09b one `send` per posting, in order (path rule over the emitting loop).
//  R09e attribution: the variable named on the `send $…`, `source = $…`, `destination = $…` lines is looked up,
//       in the map it was registered in, under a key with the same shape as the registration key, built from
//       the posting being emitted; and the value registered for it is that posting's monetary
//       (`<Asset> <Amount>`), Source, Destination respectively. Every variable is exported as name→value.
//  R09h injectivity: a de-duplication key made of several fields separates them so that two different
//       (asset, amount) pairs cannot give the same key (seed C09-1: `asset + amount`).

import (
	"fmt"
	"go/token"
	"go/types"
	"sort"
	"strings"

	"golang.org/x/tools/go/ssa"
)

type postingLoop struct {
	header *ssa.BasicBlock
	idx    ssa.Value // the index value used to address the element (rangeindex + 1)
	elem   *ssa.Alloc
}

type txScript struct {
	c                              *Ctx
	fn                             *ssa.Function
	nameF, valueF                  *types.Var
	fSource, fDest, fAsset, fAmount *types.Var
	loops                          []*postingLoop
}

func (t *txScript) loopOfElem(base ssa.Value) *postingLoop {
	for _, l := range t.loops {
		if ssa.Value(l.elem) == base {
			return l
		}
	}
	return nil
}

// fieldDesc: the posting field (and the loop it belongs to) a value reads: p.Source, p.Asset,
// p.Amount.String(), … The value may live in a helper or closure (bind): its parameters stand for the caller's
// arguments.
func (t *txScript) fieldDesc(v ssa.Value, bind *callBind) (string, *postingLoop) {
	v = stripStringConv(v)
	if bind != nil {
		if w, nb := bind.resolve(v); w != v {
			return t.fieldDesc(w, nb)
		}
	}
	elemOf := func(base ssa.Value) *postingLoop {
		if l := t.loopOfElem(base); l != nil {
			return l
		}
		if bind != nil {
			// the base is the helper's copy of a parameter: the caller passed the posting of its loop
			w, _ := bind.resolve(base)
			if u, ok := w.(*ssa.UnOp); ok && u.Op == token.MUL {
				return t.loopOfElem(u.X)
			}
			return t.loopOfElem(w)
		}
		return nil
	}
	if call, ok := v.(*ssa.Call); ok && calleeFullName(call) == "(*math/big.Int).String" {
		if f, base := anyFieldRead(call.Call.Args[0]); f != nil {
			if l := elemOf(base); l != nil && sameField(f, t.fAmount) {
				return "Amount.String()", l
			}
		}
		return "", nil
	}
	if f, base := anyFieldRead(v); f != nil {
		if l := elemOf(base); l != nil {
			return f.Name(), l
		}
	}
	if fl, ok := v.(*ssa.Field); ok {
		if l := elemOf(fl.X); l != nil {
			return fieldOfField(fl).Name(), l
		}
	}
	return "", nil
}

// mapRoot: the identity of a variable map: the map value itself, or the cell it lives in when closures capture it
// (also seen from inside such a closure).
func (t *txScript) mapRoot(v ssa.Value) ssa.Value {
	u, ok := v.(*ssa.UnOp)
	if !ok || u.Op != token.MUL {
		return v
	}
	switch x := u.X.(type) {
	case *ssa.Alloc:
		return x
	case *ssa.FreeVar:
		lit := x.Parent()
		for i, f := range lit.FreeVars {
			if f != x || lit.Parent() == nil {
				continue
			}
			for _, b := range lit.Parent().Blocks {
				for _, ins := range b.Instrs {
					if mc, ok := ins.(*ssa.MakeClosure); ok && mc.Fn == ssa.Value(lit) && i < len(mc.Bindings) {
						return mc.Bindings[i]
					}
				}
			}
		}
	}
	return v
}

// writeParts: the text a call writes into the script: sb.WriteString(x), or fmt.Fprintf(&sb, format, args…).
func (t *txScript) writeParts(call *ssa.Call) ([][]sPart, bool) {
	name := calleeFullName(call)
	if strings.HasPrefix(name, "(*strings.Builder).Write") && len(call.Call.Args) > 1 {
		return strParts(call.Call.Args[1]), true
	}
	if (name == "fmt.Fprintf" || name == "fmt.Fprint") && len(call.Call.Args) >= 2 {
		w := call.Call.Args[0]
		if mi, ok := w.(*ssa.MakeInterface); ok {
			w = mi.X
		}
		if p, ok := w.Type().(*types.Pointer); !ok || !isNamed(p.Elem(), "strings", "Builder") {
			return nil, false
		}
		if name == "fmt.Fprint" {
			var out [][]sPart = [][]sPart{{}}
			for _, a := range orderedVariadic(call.Call.Args[1]) {
				out = crossParts(out, strParts(a))
			}
			return out, true
		}
		format, ok := constString(call.Call.Args[1])
		if !ok {
			return nil, true
		}
		var args []ssa.Value
		if len(call.Call.Args) > 2 {
			args = orderedVariadic(call.Call.Args[2])
		}
		return formatParts(format, args, map[ssa.Value]bool{}, 0, nil, call), true
	}
	return nil, false
}

// memoRead: v reads S[idx] where S is a local slice filled element-wise inside posting loops at their own
// index: returns the stored expressions with the loop that stored them.
func (t *txScript) memoRead(v ssa.Value) (stored []ssa.Value, writers []*postingLoop, reader *postingLoop, ok bool) {
	u, isU := v.(*ssa.UnOp)
	if !isU || u.Op != token.MUL {
		return nil, nil, nil, false
	}
	ia, isIA := u.X.(*ssa.IndexAddr)
	if !isIA {
		return nil, nil, nil, false
	}
	ms, isMS := ia.X.(*ssa.MakeSlice)
	if !isMS {
		return nil, nil, nil, false
	}
	for _, l := range t.loops {
		if l.idx == ia.Index {
			reader = l
		}
	}
	if reader == nil {
		return nil, nil, nil, false
	}
	for _, r := range *ms.Referrers() {
		wa, isW := r.(*ssa.IndexAddr)
		if !isW {
			if _, isDbg := r.(*ssa.DebugRef); isDbg {
				continue
			}
			if _, isLen := r.(*ssa.Call); isLen {
				continue // len(S)
			}
			return nil, nil, nil, false // the slice escapes or is resliced
		}
		for _, rr := range *wa.Referrers() {
			st, isSt := rr.(*ssa.Store)
			if !isSt || st.Addr != ssa.Value(wa) {
				continue
			}
			var wl *postingLoop
			for _, l := range t.loops {
				if l.idx == wa.Index {
					wl = l
				}
			}
			if wl == nil {
				return nil, nil, nil, false
			}
			stored = append(stored, st.Val)
			writers = append(writers, wl)
		}
	}
	return stored, writers, reader, len(stored) > 0
}

// keyCanon: the canonical form of a map key relative to a loop: literals quoted, posting fields by name.
// ok=false when a dynamic piece is not a field of the posting of that loop.
func (t *txScript) keyCanon(v ssa.Value, loop *postingLoop, depth int) (canon []string, kinds []string, ok bool) {
	return t.keyCanonB(v, loop, depth, nil)
}

func (t *txScript) keyCanonB(v ssa.Value, loop *postingLoop, depth int, bind *callBind) (canon []string, kinds []string, ok bool) {
	if depth > 4 {
		return nil, nil, false
	}
	// a memoised key: read back at this loop's index, written at the writer loop's index
	if stored, writers, reader, isMemo := t.memoRead(stripStringConv(v)); isMemo {
		if reader != loop {
			return nil, nil, false
		}
		var first []string
		var firstK []string
		for i, sv := range stored {
			cn, ks, ok := t.keyCanon(sv, writers[i], depth+1)
			if !ok {
				return nil, nil, false
			}
			if i == 0 {
				first, firstK = cn, ks
			} else if strings.Join(cn, "") != strings.Join(first, "") {
				return nil, nil, false
			}
		}
		return first, firstK, true
	}
	variants := strPartsBound(v, bind)
	if len(variants) != 1 {
		return nil, nil, false
	}
	for _, p := range variants[0] {
		if p.isLit() {
			canon = append(canon, fmt.Sprintf("%q", p.lit))
			kinds = append(kinds, "lit")
			continue
		}
		if _, _, _, isMemo := t.memoRead(stripStringConv(p.dyn)); isMemo {
			cn, ks, ok := t.keyCanon(p.dyn, loop, depth+1)
			if !ok {
				return nil, nil, false
			}
			canon = append(canon, cn...)
			kinds = append(kinds, ks...)
			continue
		}
		d, l := t.fieldDesc(p.dyn, p.bind)
		if d == "" || l != loop {
			return nil, nil, false
		}
		canon = append(canon, d)
		if d == "Amount.String()" {
			kinds = append(kinds, "num")
		} else {
			kinds = append(kinds, "text")
		}
	}
	return canon, kinds, true
}

func runTxScriptRules(c *Ctx, fn *ssa.Function, nameF, valueF, postingsF *types.Var, fSource, fDest, fAsset, fAmount *types.Var) {
	t := &txScript{c: c, fn: fn, nameF: nameF, valueF: valueF, fSource: fSource, fDest: fDest, fAsset: fAsset, fAmount: fAmount}
	txData := fn.Params[0]
	// ---- the loops over txData.Postings
	for _, b := range fn.Blocks {
		for _, ins := range b.Instrs {
			ia, ok := ins.(*ssa.IndexAddr)
			if !ok {
				continue
			}
			f, base := anyFieldRead(ia.X)
			if !sameField(f, postingsF) || !isParamOrSpill(base, txData) {
				continue
			}
			bo, ok := ia.Index.(*ssa.BinOp)
			if !ok {
				continue
			}
			phi, ok := bo.X.(*ssa.Phi)
			if !ok || phi.Comment != "rangeindex" {
				continue
			}
			l := &postingLoop{header: phi.Block(), idx: ia.Index}
			for _, r := range *ia.Referrers() {
				if u, ok := r.(*ssa.UnOp); ok {
					for _, rr := range *u.Referrers() {
						if st, ok := rr.(*ssa.Store); ok {
							if a, ok := st.Addr.(*ssa.Alloc); ok {
								l.elem = a
							}
						}
					}
				}
			}
			if l.elem != nil {
				t.loops = append(t.loops, l)
			}
		}
	}
	if len(t.loops) == 0 {
		c.undecided("R09b", "TxToScriptData:one-send-per-posting-in-order", fn.Pos(), "no `for … range txData.Postings` loop found in TxToScriptData itself: the translation of postings moved out of the shape this rule decides")
		return
	}

	// ---- R09a: provenance of everything written into the script
	var cleanLeaf func(v ssa.Value, depth int) bool
	var cleanSlice func(v ssa.Value, depth int) bool
	cleanText := func(v ssa.Value, depth int) bool {
		vs := strParts(v)
		if vs == nil {
			return false
		}
		for _, parts := range vs {
			for _, p := range parts {
				if !p.isLit() && !cleanLeaf(p.dyn, depth+1) {
					return false
				}
			}
		}
		return true
	}
	cleanLeaf = func(v ssa.Value, depth int) bool {
		if depth > 20 {
			return false
		}
		v = stripStringConv(v)
		if !carriesText(v.Type()) {
			return true
		}
		switch x := v.(type) {
		case *ssa.Phi:
			for _, e := range x.Edges {
				if !cleanText(e, depth+1) {
					return false
				}
			}
			return true
		case *ssa.UnOp:
			if x.Op == token.MUL {
				if f, _ := anyFieldRead(x); f != nil {
					return sameField(f, nameF)
				}
				if ia, ok := x.X.(*ssa.IndexAddr); ok {
					return cleanSlice(ia.X, depth+1)
				}
			}
		case *ssa.Field:
			return sameField(fieldOfField(x), nameF)
		}
		return false
	}
	cleanSlice = func(v ssa.Value, depth int) bool {
		if depth > 20 {
			return false
		}
		switch x := v.(type) {
		case *ssa.Slice:
			if _, ok := x.X.(*ssa.Alloc); ok {
				for _, e := range variadicElems(x) {
					if !cleanText(e, depth+1) {
						return false
					}
				}
				return true
			}
		case *ssa.Phi:
			for _, e := range x.Edges {
				if e == ssa.Value(x) {
					continue
				}
				if !cleanSliceGuard(x, e, cleanSlice, depth) {
					return false
				}
			}
			return true
		case *ssa.MakeSlice:
			return true
		case *ssa.Call:
			if bi, ok := x.Call.Value.(*ssa.Builtin); ok && bi.Name() == "append" {
				if !cleanSliceGuard(nil, x.Call.Args[0], cleanSlice, depth) {
					return false
				}
				if len(x.Call.Args) > 1 {
					return cleanSlice(x.Call.Args[1], depth+1)
				}
				return true
			}
			// a helper of the repository that returns a slice: every returned slice must be clean
			// (`sortedVariableNames(m)` collecting v.name)
			if callee := x.Call.StaticCallee(); callee != nil && callee.Pkg != nil && inRepo(callee.Pkg.Pkg.Path()) && len(callee.Blocks) > 0 {
				n := 0
				for _, b := range callee.Blocks {
					if r, ok := b.Instrs[len(b.Instrs)-1].(*ssa.Return); ok && len(r.Results) == 1 {
						n++
						if !cleanSlice(r.Results[0], depth+1) {
							return false
						}
					}
				}
				return n > 0
			}
		}
		return false
	}
	nWrites := 0
	labels := map[string]int{}
	cleanParts := func(vs [][]sPart) bool {
		if vs == nil {
			return false
		}
		for _, parts := range vs {
			for _, p := range parts {
				if !p.isLit() && !cleanLeaf(p.dyn, 1) {
					return false
				}
			}
		}
		return true
	}
	for _, b := range fn.Blocks {
		for _, ins := range b.Instrs {
			call, ok := ins.(*ssa.Call)
			if !ok {
				continue
			}
			wp, isWrite := t.writeParts(call)
			if !isWrite {
				continue
			}
			nWrites++
			label := "write:" + partsLabel(wp)
			labels[label]++
			if labels[label] > 1 {
				label = fmt.Sprintf("%s#%d", label, labels[label])
			}
			if cleanParts(wp) {
				c.ok("R09a", "TxToScriptData:"+label, call.Pos(), "script text is made of constants, integers and generated variable names")
			} else {
				c.bad("R09a", "TxToScriptData:"+label, call.Pos(), "text that is not provably made of constants and generated variable names is written into the script: a posting field (address, asset, amount) becomes Numscript source, so a crafted value can rewrite the program")
			}
		}
	}
	if nWrites < 8 {
		c.undecided("R09a", "floor:builder-writes", fn.Pos(), fmt.Sprintf("only %d writes to the script builder found", nWrites))
	}

	// ---- registrations: M[key] = variable{name, value}
	type registration struct {
		mu       *ssa.MapUpdate
		loop     *postingLoop
		keyCanon string
		keyParts []string
		keyKinds []string
		valCanon string
		prefix   string
		counter  string // identity of the integer making the name unique
		nameOK   bool
		nameWhy  string
	}
	var regs []*registration
	type regSite struct {
		g    *ssa.Function
		bind *callBind
		at   *ssa.BasicBlock // block of fn that determines the loop
	}
	var sites []regSite
	sites = append(sites, regSite{fn, nil, nil})
	for _, lit := range fn.AnonFuncs {
		for _, b := range fn.Blocks {
			for _, ins := range b.Instrs {
				if call, ok := ins.(*ssa.Call); ok && !call.Call.IsInvoke() && closureOf(call.Call.Value, 0) == lit {
					sites = append(sites, regSite{lit, &callBind{callee: lit, args: call.Call.Args}, b})
				}
			}
		}
	}
	for _, site := range sites {
		for _, b := range site.g.Blocks {
			for _, ins := range b.Instrs {
				mu, ok := ins.(*ssa.MapUpdate)
				if !ok {
					continue
				}
				u, ok := mu.Value.(*ssa.UnOp)
				if !ok {
					continue
				}
				cell, ok := u.X.(*ssa.Alloc)
				if !ok || !isNamed(cell.Type(), pkgLedger, "variable") {
					continue
				}
				r := &registration{mu: mu}
				at := site.at
				if at == nil {
					at = mu.Block()
				}
				for _, l := range t.loops {
					if l.header.Dominates(at) {
						r.loop = l
					}
				}
				var nameV, valV ssa.Value
				for _, rf := range *cell.Referrers() {
					fa, ok := rf.(*ssa.FieldAddr)
					if !ok {
						continue
					}
					for _, rr := range *fa.Referrers() {
						if st, ok := rr.(*ssa.Store); ok && st.Addr == ssa.Value(fa) {
							if sameField(fieldOfAddr(fa), nameF) {
								nameV = st.Val
							}
							if sameField(fieldOfAddr(fa), valueF) {
								valV = st.Val
							}
						}
					}
				}
				if r.loop != nil {
					if cn, ks, ok := t.keyCanonB(mu.Key, r.loop, 0, site.bind); ok {
						r.keyParts, r.keyKinds, r.keyCanon = cn, ks, strings.Join(cn, "+")
					}
					if valV != nil {
						if cn, _, ok := t.keyCanonB(valV, r.loop, 0, site.bind); ok {
							r.valCanon = strings.Join(cn, "+")
						}
					}
				}
				// the name: literal prefix + one integer
				if nameV != nil {
					vs := strPartsBound(nameV, site.bind)
					if len(vs) == 1 && len(vs[0]) == 2 && vs[0][0].isLit() && !vs[0][1].isLit() && !carriesText(stripStringConv(vs[0][1].dyn).Type()) {
						r.prefix = vs[0][0].lit
						r.counter, r.nameOK, r.nameWhy = t.uniqueCounter(stripStringConv(vs[0][1].dyn), mu)
					} else {
						r.nameWhy = "the name is not a constant prefix followed by one integer"
					}
				} else {
					r.nameWhy = "the variable is registered without a name"
				}
				regs = append(regs, r)
			}
		}
	}
	for i, r := range regs {
		key := fmt.Sprintf("TxToScriptData:variable-name-is-unique#%d", i+1)
		ok := r.nameOK
		why := r.nameWhy
		if ok {
			for _, o := range regs {
				if o == r || !o.nameOK {
					continue
				}
				if o.prefix == r.prefix && o.counter != r.counter {
					ok, why = false, fmt.Sprintf("two registration sites use the prefix %q with different counters: both can generate the same name", r.prefix)
				}
				if o.prefix != r.prefix && (strings.HasPrefix(o.prefix, r.prefix) || strings.HasPrefix(r.prefix, o.prefix)) && startsWithDigitAfter(o.prefix, r.prefix) {
					ok, why = false, fmt.Sprintf("the prefixes %q and %q can generate the same name", r.prefix, o.prefix)
				}
			}
		}
		c.check(ok, "R09a", key, r.mu.Pos(), fmt.Sprintf("name = %q + %s", r.prefix, r.counter), "a generated variable name is not provably unique ("+why+"): two variables with one name are merged in the vars map, and a posting is committed with another posting's account or amount")
	}
	if len(regs) < 3 {
		c.undecided("R09e", "floor:registrations", fn.Pos(), fmt.Sprintf("expected the source, destination and monetary registrations, found %d", len(regs)))
	}

	// ---- R09h: injective de-duplication keys
	for i, r := range regs {
		if r.loop == nil || r.keyCanon == "" {
			c.undecided("R09h", fmt.Sprintf("TxToScriptData:registration#%d:key-reads-the-current-posting", i+1), r.mu.Pos(), "the key of a variable registration is not made of constants and fields of the posting being registered")
			continue
		}
		why := injectiveKey(r.keyParts, r.keyKinds)
		c.check(why == "", "R09h", fmt.Sprintf("TxToScriptData:registration#%d:key-is-injective:%s", i+1, shortCanon(r.keyCanon)), r.mu.Pos(), "the key "+r.keyCanon+" determines its fields", "the de-duplication key "+r.keyCanon+" does not determine its fields ("+why+"): two postings with different fields share one variable, and the later one is committed with the earlier one's values")
	}

	// ---- R09e: values registered are the posting's own fields
	wantVal := map[string]string{"Source": "Source", "Destination": "Destination"}
	monetaryVal := `Asset+" "+Amount.String()`
	nMon := 0
	for i, r := range regs {
		if r.keyCanon == "" {
			continue
		}
		want, single := wantVal[r.keyCanon]
		if !single {
			want = monetaryVal
			nMon++
			// the key must be made of exactly the two fields the value is made of
			hasA, hasN := 0, 0
			for _, p := range r.keyParts {
				if p == "Asset" {
					hasA++
				}
				if p == "Amount.String()" {
					hasN++
				}
			}
			if hasA != 1 || hasN != 1 {
				c.bad("R09e", fmt.Sprintf("TxToScriptData:registration#%d:%s", i+1, shortCanon(r.keyCanon)), r.mu.Pos(), "the key of the monetary variables ("+r.keyCanon+") is not made of the asset and the amount of the posting, once each: postings that differ in the missing field share a variable")
				continue
			}
		}
		c.check(r.valCanon == want, "R09e", fmt.Sprintf("TxToScriptData:registration#%d:%s", i+1, shortCanon(r.keyCanon)), r.mu.Pos(), "variable registered under "+r.keyCanon+" carries value "+r.valCanon,
			fmt.Sprintf("a variable registered under key %s carries value %s instead of %s: the value bound to the generated variable is not the posting's own field", r.keyCanon, orQ(r.valCanon), want))
	}
	if nMon == 0 {
		c.undecided("R09e", "floor:monetary-registration", fn.Pos(), "no registration keyed by asset and amount found")
	}

	// ---- the emitting loop: the posting loop that writes `send`
	var emit *postingLoop
	for _, l := range t.loops {
		for _, b := range fn.Blocks {
			if !l.header.Dominates(b) {
				continue
			}
			for _, ins := range b.Instrs {
				if call, ok := ins.(*ssa.Call); ok && t.isSendWrite(call) {
					emit = l
				}
			}
		}
	}
	kLoop := "TxToScriptData:one-send-per-posting-in-order"
	if emit == nil {
		c.bad("R09b", kLoop, fn.Pos(), "no `for … range txData.Postings` loop writes the `send` statements: postings are not translated one by one in order")
		return
	}
	header := emit.header
	oblB := newOblSet(c, "R09b")
	oblB.expect(kLoop, header.Instrs[0].Pos(), "every path through one iteration writes exactly one `send` header")
	pr := &PathRule{
		Step: func(pc *PathCtx, s uint64, ins ssa.Instruction) uint64 {
			if call, ok := ins.(*ssa.Call); ok && t.isSendWrite(call) {
				if s&3 < 3 {
					s++
				}
			}
			return s
		},
		Edge: func(pc *PathCtx, s uint64, from *ssa.BasicBlock, si int) (uint64, bool) {
			to := from.Succs[si]
			if to == header && header.Dominates(from) && from != header {
				if s&4 != 0 && s&3 != 1 {
					oblB.violate(kLoop, from.Instrs[len(from.Instrs)-1].Pos(), fmt.Sprintf("a path through one iteration of the posting loop writes %d `send` statements: a posting is dropped or duplicated", s&3), pc.Trail())
				}
				s &^= 7
			}
			if from == header && len(header.Succs) == 2 && to == header.Succs[0] {
				s = 4
			}
			return s, true
		},
	}
	c.RunPaths(fn, 0, pr)
	oblB.flush()

	// ---- R09e: the lines of the emitting loop name the variable of the current posting
	lineWant := map[string]string{"send $": monetaryVal, "source = $": "Source", "destination = $": "Destination"}
	found := map[string]bool{}
	for _, b := range fn.Blocks {
		if !header.Dominates(b) {
			continue
		}
		for _, ins := range b.Instrs {
			call, ok := ins.(*ssa.Call)
			if !ok {
				continue
			}
			wp, isWrite := t.writeParts(call)
			if !isWrite {
				continue
			}
			for _, parts := range wp {
				for pi := 0; pi+1 < len(parts); pi++ {
					if !parts[pi].isLit() || parts[pi+1].isLit() {
						continue
					}
					for prefix, want := range lineWant {
						if !strings.HasSuffix(parts[pi].lit, prefix) {
							continue
						}
						found[prefix] = true
						lineKey := "TxToScriptData:" + strings.TrimSpace(strings.TrimSuffix(prefix, "$")) + "-line-uses-the-current-posting"
						// the dynamic piece: name of a variable obtained by a lookup
						d := stripStringConv(parts[pi+1].dyn)
						f, base := anyFieldRead(d)
						var lk *ssa.Lookup
						if sameField(f, nameF) {
							if s := singleStore(base); s != nil {
								if ex, ok := s.(*ssa.Extract); ok {
									lk, _ = ex.Tuple.(*ssa.Lookup)
								}
								if l2, ok := s.(*ssa.Lookup); ok {
									lk = l2
								}
							}
						}
						if lk == nil {
							c.bad("R09e", lineKey, call.Pos(), "the `"+strings.TrimSpace(prefix)+"…` line does not name a variable obtained by a lookup in the variable maps")
							continue
						}
						cn, _, okK := t.keyCanon(lk.Index, emit, 0)
						got := strings.Join(cn, "+")
						if !okK {
							c.bad("R09e", lineKey, call.Pos(), "the `"+strings.TrimSpace(prefix)+"…` line names a variable looked up by a key that is not made of the fields of the posting being emitted: postings are re-attributed")
							continue
						}
						// the registration that fills this map under a key of the same shape
						var reg *registration
						for _, r := range regs {
							if t.mapRoot(r.mu.Map) == t.mapRoot(lk.X) && r.keyCanon == got {
								reg = r
							}
						}
						switch {
						case reg == nil:
							c.bad("R09e", lineKey, call.Pos(), fmt.Sprintf("the `%s…` line looks its variable up under %s, but no registration fills that map under a key of that shape: the lookup finds another posting's variable or none", strings.TrimSpace(prefix), got))
						case reg.valCanon != want:
							c.bad("R09e", lineKey, call.Pos(), fmt.Sprintf("the `%s…` line names a variable whose value is %s of the posting instead of %s: postings are re-attributed", strings.TrimSpace(prefix), orQ(reg.valCanon), want))
						default:
							c.ok("R09e", lineKey, call.Pos(), "variable looked up by "+got+" of the posting being emitted; its value is "+want)
						}
					}
				}
			}
		}
	}
	var prefixes []string
	for p := range lineWant {
		prefixes = append(prefixes, p)
	}
	sort.Strings(prefixes)
	for _, prefix := range prefixes {
		if !found[prefix] {
			c.bad("R09e", "TxToScriptData:"+strings.TrimSpace(strings.TrimSuffix(prefix, "$"))+"-line-uses-the-current-posting", fn.Pos(), "the emitting loop writes no `"+prefix+"…` line")
		}
	}
}

func orQ(s string) string {
	if s == "" {
		return "?"
	}
	return s
}

func shortCanon(s string) string {
	s = strings.ReplaceAll(s, `"`, "'")
	s = strings.ReplaceAll(s, " ", "_")
	return s
}

func startsWithDigitAfter(a, b string) bool {
	long, short := a, b
	if len(b) > len(a) {
		long, short = b, a
	}
	rest := long[len(short):]
	return rest != "" && rest[0] >= '0' && rest[0] <= '9'
}

func (t *txScript) isSendWrite(call *ssa.Call) bool {
	vs, ok := t.writeParts(call)
	if !ok || len(vs) == 0 {
		return false
	}
	for _, parts := range vs {
		if len(parts) == 0 || !parts[0].isLit() || !strings.HasPrefix(strings.TrimSpace(parts[0].lit), "send ") {
			return false
		}
	}
	return true
}

func partsLabel(vs [][]sPart) string {
	if len(vs) == 0 {
		return "?"
	}
	var sb strings.Builder
	for _, p := range vs[0] {
		if p.isLit() {
			sb.WriteString(p.lit)
		} else {
			sb.WriteString("%")
		}
	}
	return fmt.Sprintf("%q", sb.String())
}

// uniqueCounter: the integer that makes a generated name unique. Accepted: len(M) of the map the variable is
// registered into, or a loop-carried counter that is incremented in the block of the registration (or one it
// dominates). Returns an identity for the counter.
func (t *txScript) uniqueCounter(v ssa.Value, mu *ssa.MapUpdate) (string, bool, string) {
	if call, ok := v.(*ssa.Call); ok {
		if bi, ok := call.Call.Value.(*ssa.Builtin); ok && bi.Name() == "len" {
			if t.mapRoot(call.Call.Args[0]) == t.mapRoot(mu.Map) {
				return "len(" + t.mapRoot(mu.Map).Name() + ")", true, ""
			}
			return "", false, "the name is numbered by the length of another collection than the map registered into"
		}
	}
	// the web of the counter: phis and +const steps
	web := map[ssa.Value]bool{}
	var grow func(x ssa.Value)
	grow = func(x ssa.Value) {
		if web[x] {
			return
		}
		switch y := x.(type) {
		case *ssa.Phi:
			web[x] = true
			for _, e := range y.Edges {
				grow(e)
			}
		case *ssa.BinOp:
			if y.Op == token.ADD {
				if _, isC := constInt(y.Y); isC {
					web[x] = true
					grow(y.X)
				}
			}
		case *ssa.Const:
		default:
			web[x] = true
		}
		if refs := x.Referrers(); refs != nil && web[x] {
			for _, r := range *refs {
				switch u := r.(type) {
				case *ssa.Phi:
					grow(u)
				case *ssa.BinOp:
					if u.Op == token.ADD && u.X == x {
						if _, isC := constInt(u.Y); isC {
							grow(u)
						}
					}
				}
			}
		}
	}
	grow(v)
	// incremented with the registration
	inc := false
	for x := range web {
		bo, ok := x.(*ssa.BinOp)
		if !ok || bo.Op != token.ADD {
			continue
		}
		if n, isC := constInt(bo.Y); !isC || n < 1 {
			continue
		}
		if bo.X == v && (bo.Block() == mu.Block() || mu.Block().Dominates(bo.Block())) {
			inc = true
		}
	}
	if !inc {
		return "", false, "the integer in the name is not advanced when a variable is registered"
	}
	var names []string
	for x := range web {
		names = append(names, x.Name())
	}
	sort.Strings(names)
	return "counter:" + names[0], true, ""
}

// injectiveKey: "" when the key parts determine the dynamic fields; otherwise why not.
func injectiveKey(parts, kinds []string) string {
	var dynIdx []int
	for i, k := range kinds {
		if k != "lit" {
			dynIdx = append(dynIdx, i)
		}
	}
	if len(dynIdx) <= 1 {
		return ""
	}
	if len(dynIdx) > 2 {
		return "more than two fields in one key: not decided"
	}
	a, b := dynIdx[0], dynIdx[1]
	sep := ""
	for i := a + 1; i < b; i++ {
		s := parts[i]
		if len(s) >= 2 {
			s = unquoteLit(s)
		}
		sep += s
	}
	ka, kb := kinds[a], kinds[b]
	digitOrSign := func(ch byte) bool { return (ch >= '0' && ch <= '9') || ch == '-' }
	switch {
	case ka == "num" && kb == "num":
		if sep == "" || digitOrSign(sep[0]) {
			return "two numbers with no separator between them"
		}
		return ""
	case ka == "num":
		if sep == "" || digitOrSign(sep[0]) {
			return "a number is followed by free text with no separator that cannot continue the number"
		}
		return ""
	case kb == "num":
		if sep == "" || digitOrSign(sep[len(sep)-1]) {
			return "free text is followed by a number with no separator that cannot belong to the number: `A1`+`5` and `A`+`15` collide"
		}
		return ""
	default:
		return "two free-text fields in one key: a separator can occur in the text"
	}
}

func unquoteLit(s string) string {
	var out string
	if _, err := fmt.Sscanf(s, "%q", &out); err == nil {
		return out
	}
	return s
}
