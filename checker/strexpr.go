package main

// String expressions: the finite set of texts a string-valued SSA expression can denote, with the
// dynamic (non-constant) pieces replaced by a marker. Understands constants, concatenation, phis,
// fmt.Sprintf with a constant format, conversions and single-assignment locals. Used to read SQL
// fragments assembled in Go (R04c) and generated Numscript text (C09).

import (
	"go/token"
	"go/types"
	"sort"
	"strings"

	"golang.org/x/tools/go/ssa"
)

const dynMark = "¤" // ¤ stands for text that is not a compile-time constant

const maxStrVariants = 48

func isStringType(t types.Type) bool {
	b, ok := t.Underlying().(*types.Basic)
	return ok && b.Info()&types.IsString != 0
}

func strVariants(v ssa.Value) []string {
	seen := map[ssa.Value]bool{}
	out := strVariantsRec(v, seen, 0)
	sort.Strings(out)
	return dedupStrings(out)
}

func dedupStrings(in []string) []string {
	var out []string
	for i, s := range in {
		if i == 0 || s != in[i-1] {
			out = append(out, s)
		}
	}
	return out
}

func crossStrings(a, b []string) []string {
	if len(a)*len(b) > maxStrVariants {
		return []string{dynMark}
	}
	var out []string
	for _, x := range a {
		for _, y := range b {
			out = append(out, x+y)
		}
	}
	return out
}

func strVariantsRec(v ssa.Value, seen map[ssa.Value]bool, depth int) []string {
	if depth > 24 {
		return []string{dynMark}
	}
	if s, ok := constString(v); ok {
		return []string{s}
	}
	switch x := v.(type) {
	case *ssa.MakeInterface:
		if isStringType(x.X.Type()) {
			return strVariantsRec(x.X, seen, depth+1)
		}
	case *ssa.ChangeType:
		if isStringType(x.X.Type()) {
			return strVariantsRec(x.X, seen, depth+1)
		}
	case *ssa.Convert:
		if isStringType(x.X.Type()) {
			return strVariantsRec(x.X, seen, depth+1)
		}
	case *ssa.BinOp:
		if x.Op == token.ADD && isStringType(x.Type()) {
			return crossStrings(strVariantsRec(x.X, seen, depth+1), strVariantsRec(x.Y, seen, depth+1))
		}
	case *ssa.Phi:
		if seen[x] {
			return nil // loop-carried: the other edges describe it
		}
		seen[x] = true
		defer delete(seen, x)
		var out []string
		for _, e := range x.Edges {
			out = append(out, strVariantsRec(e, seen, depth+1)...)
			if len(out) > maxStrVariants {
				return []string{dynMark}
			}
		}
		if len(out) == 0 {
			return []string{dynMark}
		}
		return out
	case *ssa.UnOp:
		if x.Op == token.MUL {
			if a, ok := x.X.(*ssa.Alloc); ok {
				var out []string
				n := 0
				for _, r := range *a.Referrers() {
					if st, ok := r.(*ssa.Store); ok && st.Addr == ssa.Value(a) {
						n++
						if seen[st.Val] {
							continue
						}
						out = append(out, strVariantsRec(st.Val, seen, depth+1)...)
					}
				}
				if n > 0 && len(out) > 0 && len(out) <= maxStrVariants && !cellStoredInClosures(a) {
					return out
				}
			}
		}
	case *ssa.Call:
		if calleeFullName(x) == "fmt.Sprintf" && len(x.Call.Args) >= 1 {
			format, ok := constString(x.Call.Args[0])
			if !ok {
				return []string{dynMark}
			}
			var args []ssa.Value
			if len(x.Call.Args) > 1 {
				args = orderedVariadic(x.Call.Args[1])
			}
			out := []string{""}
			ai := 0
			for i := 0; i < len(format); i++ {
				if format[i] != '%' {
					for k := range out {
						out[k] += string(format[i])
					}
					continue
				}
				if i+1 < len(format) && format[i+1] == '%' {
					for k := range out {
						out[k] += "%"
					}
					i++
					continue
				}
				// skip flags/width up to the verb
				j := i + 1
				for j < len(format) && strings.ContainsRune("+-# 0123456789.", rune(format[j])) {
					j++
				}
				verb := byte('?')
				if j < len(format) {
					verb = format[j]
				}
				piece := []string{dynMark}
				if ai < len(args) && (verb == 's' || verb == 'v') {
					piece = strVariantsRec(args[ai], seen, depth+1)
				}
				ai++
				out = crossStrings(out, piece)
				i = j
			}
			return out
		}
	}
	return []string{dynMark}
}

// orderedVariadic: the elements of a variadic argument slice literal, by index.
func orderedVariadic(v ssa.Value) []ssa.Value {
	sl, ok := v.(*ssa.Slice)
	if !ok {
		return nil
	}
	arr, ok := sl.X.(*ssa.Alloc)
	if !ok {
		return nil
	}
	type el struct {
		i int64
		v ssa.Value
	}
	var els []el
	for _, r := range *arr.Referrers() {
		ia, ok := r.(*ssa.IndexAddr)
		if !ok {
			continue
		}
		idx, ok := constInt(ia.Index)
		if !ok {
			continue
		}
		for _, rr := range *ia.Referrers() {
			if st, ok := rr.(*ssa.Store); ok && st.Addr == ssa.Value(ia) {
				els = append(els, el{idx, st.Val})
			}
		}
	}
	sort.Slice(els, func(i, j int) bool { return els[i].i < els[j].i })
	var out []ssa.Value
	for _, e := range els {
		out = append(out, e.v)
	}
	return out
}

// isStringBuilding: is the instruction one that merely builds a bigger string out of v?
func isStringBuilding(user ssa.Instruction, v ssa.Value) bool {
	switch u := user.(type) {
	case *ssa.BinOp:
		return u.Op == token.ADD && isStringType(u.Type())
	case *ssa.Phi:
		return isStringType(u.Type())
	case *ssa.MakeInterface:
		// argument of Sprintf?
		for _, r := range *u.Referrers() {
			if st, ok := r.(*ssa.Store); ok {
				if ia, ok := st.Addr.(*ssa.IndexAddr); ok {
					if arr, ok := ia.X.(*ssa.Alloc); ok {
						for _, ar := range *arr.Referrers() {
							if sl, ok := ar.(*ssa.Slice); ok {
								for _, sr := range *sl.Referrers() {
									if call, ok := sr.(*ssa.Call); ok && calleeFullName(call) == "fmt.Sprintf" {
										return true
									}
								}
							}
						}
					}
				}
			}
		}
	case *ssa.Call:
		if calleeFullName(u) == "fmt.Sprintf" && len(u.Call.Args) > 0 && u.Call.Args[0] == v {
			return true
		}
	case *ssa.Store:
		// store into a string local that is read back into a bigger string: treated as building
		if a, ok := u.Addr.(*ssa.Alloc); ok && isStringType(a.Type().(*types.Pointer).Elem()) {
			return true
		}
	case *ssa.ChangeType, *ssa.Convert:
		return true
	}
	return false
}

// ---- parts form: the same reading, keeping the dynamic pieces as values --------------------------

// callBind: the dynamic piece was found inside a helper; parameters of callee stand for args (in the caller's
// frame, itself possibly bound).
type callBind struct {
	callee *ssa.Function
	args   []ssa.Value
	parent *callBind
}

// resolve maps a value of the bound frame that is a parameter (or the local a parameter was spilled into) to the
// caller's argument; returns the value and the binding that now applies to it.
func (b *callBind) resolve(v ssa.Value) (ssa.Value, *callBind) {
	for b != nil {
		w := v
		if u, ok := w.(*ssa.UnOp); ok && u.Op == token.MUL {
			if st := singleStore(u.X); st != nil {
				w = st
			}
		}
		if a, ok := w.(*ssa.Alloc); ok {
			if st := singleStore(a); st != nil {
				w = st
			}
		}
		p, ok := w.(*ssa.Parameter)
		if !ok || p.Parent() != b.callee {
			return v, b
		}
		i := -1
		for k, q := range b.callee.Params {
			if q == p {
				i = k
			}
		}
		if i < 0 || i >= len(b.args) {
			return v, b
		}
		v, b = b.args[i], b.parent
	}
	return v, nil
}

type sPart struct {
	lit  string
	dyn  ssa.Value // nil for a literal
	bind *callBind // frame of dyn when it was found inside a helper
}

func (p sPart) isLit() bool { return p.dyn == nil }

func normParts(ps []sPart) []sPart {
	var out []sPart
	for _, p := range ps {
		if p.isLit() {
			if p.lit == "" {
				continue
			}
			if n := len(out); n > 0 && out[n-1].isLit() {
				out[n-1].lit += p.lit
				continue
			}
		}
		out = append(out, p)
	}
	return out
}

func crossParts(a, b [][]sPart) [][]sPart {
	if len(a)*len(b) > maxStrVariants {
		return nil
	}
	var out [][]sPart
	for _, x := range a {
		for _, y := range b {
			out = append(out, normParts(append(append([]sPart(nil), x...), y...)))
		}
	}
	return out
}

// strParts: the variants of a string expression as sequences of literal and dynamic parts; nil when the
// expression is too large to enumerate.
func strParts(v ssa.Value) [][]sPart {
	return strPartsRec(v, map[ssa.Value]bool{}, 0, nil)
}

func strPartsBound(v ssa.Value, bind *callBind) [][]sPart {
	return strPartsRec(v, map[ssa.Value]bool{}, 0, bind)
}

func stripStringConv(v ssa.Value) ssa.Value {
	for i := 0; i < 8; i++ {
		switch x := v.(type) {
		case *ssa.MakeInterface:
			v = x.X
		case *ssa.ChangeType:
			v = x.X
		case *ssa.Convert:
			if isStringType(x.X.Type()) {
				v = x.X
			} else {
				return v
			}
		default:
			return v
		}
	}
	return v
}

// formatParts: the parts of a printf-style text with a constant format.
func formatParts(format string, args []ssa.Value, seen map[ssa.Value]bool, depth int, bind *callBind, whole ssa.Value) [][]sPart {
	leaf := func(x ssa.Value) [][]sPart { return [][]sPart{{{dyn: x, bind: bind}}} }
	out := [][]sPart{{}}
	ai := 0
	lit := ""
	flush := func() {
		if lit != "" {
			out = crossParts(out, [][]sPart{{{lit: lit}}})
			lit = ""
		}
	}
	for i := 0; i < len(format); i++ {
		if format[i] != '%' {
			lit += string(format[i])
			continue
		}
		if i+1 < len(format) && format[i+1] == '%' {
			lit += "%"
			i++
			continue
		}
		j := i + 1
		for j < len(format) && strings.ContainsRune("+-# 0123456789.", rune(format[j])) {
			j++
		}
		flush()
		var piece [][]sPart
		if ai < len(args) {
			a := stripStringConv(args[ai])
			if isStringType(a.Type()) {
				piece = strPartsRec(a, seen, depth+1, bind)
			} else {
				piece = leaf(a)
			}
		} else {
			piece = [][]sPart{{{lit: "%!missing"}}}
		}
		ai++
		if piece == nil {
			return leaf(whole)
		}
		out = crossParts(out, piece)
		if out == nil {
			return leaf(whole)
		}
		i = j
	}
	flush()
	return out
}

func strPartsRec(v ssa.Value, seen map[ssa.Value]bool, depth int, bind *callBind) [][]sPart {
	leaf := func(x ssa.Value) [][]sPart { return [][]sPart{{{dyn: x, bind: bind}}} }
	if depth > 24 {
		return leaf(v)
	}
	v = stripStringConv(v)
	if s, ok := constString(v); ok {
		return [][]sPart{normParts([]sPart{{lit: s}})}
	}
	// a parameter of a helper: the caller's argument
	if bind != nil {
		if w, nb := bind.resolve(v); w != v {
			return strPartsRec(w, seen, depth+1, nb)
		}
	}
	switch x := v.(type) {
	case *ssa.BinOp:
		if x.Op == token.ADD && isStringType(x.Type()) {
			return crossParts(strPartsRec(x.X, seen, depth+1, bind), strPartsRec(x.Y, seen, depth+1, bind))
		}
	case *ssa.Phi:
		if !isStringType(x.Type()) {
			return leaf(v)
		}
		if seen[x] {
			return nil
		}
		seen[x] = true
		defer delete(seen, x)
		var out [][]sPart
		for _, e := range x.Edges {
			r := strPartsRec(e, seen, depth+1, bind)
			out = append(out, r...)
		}
		if len(out) == 0 || len(out) > maxStrVariants {
			return leaf(v)
		}
		return out
	case *ssa.UnOp:
		if x.Op == token.MUL && isStringType(x.Type()) {
			if a, ok := x.X.(*ssa.Alloc); ok && !cellStoredInClosures(a) {
				var out [][]sPart
				n := 0
				for _, r := range *a.Referrers() {
					if st, ok := r.(*ssa.Store); ok && st.Addr == ssa.Value(a) {
						n++
						out = append(out, strPartsRec(st.Val, seen, depth+1, bind)...)
					}
				}
				if n > 0 && len(out) > 0 && len(out) <= maxStrVariants {
					return out
				}
			}
		}
	case *ssa.Call:
		switch calleeFullName(x) {
		case "strconv.Itoa", "strconv.FormatInt", "strconv.FormatUint":
			return leaf(x.Call.Args[0])
		case "fmt.Sprintf":
			format, ok := constString(x.Call.Args[0])
			if !ok {
				return leaf(v)
			}
			var args []ssa.Value
			if len(x.Call.Args) > 1 {
				args = orderedVariadic(x.Call.Args[1])
			}
			return formatParts(format, args, seen, depth, bind, v)
		}
		// a helper of the repository that returns one string expression (`monetaryKey(p)`)
		if callee := x.Call.StaticCallee(); callee != nil && callee.Pkg != nil && inRepo(callee.Pkg.Pkg.Path()) && len(callee.Blocks) > 0 && !seen[x] {
			res := callee.Signature.Results()
			if res.Len() == 1 && isStringType(res.At(0).Type()) {
				var ret *ssa.Return
				n := 0
				for _, b := range callee.Blocks {
					if r, ok := b.Instrs[len(b.Instrs)-1].(*ssa.Return); ok {
						ret = r
						n++
					}
				}
				if n == 1 {
					seen[x] = true
					defer delete(seen, x)
					return strPartsRec(ret.Results[0], seen, depth+1, &callBind{callee: callee, args: x.Call.Args, parent: bind})
				}
			}
		}
	}
	return leaf(v)
}
