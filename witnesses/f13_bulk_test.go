package v2

// Witness for F13 (C18): unknown actions are skipped silently (results shift) and a malformed
// element drops the results of the elements already executed. Fails on the pinned snapshot,
// passes after the fix.

import (
	"context"
	"encoding/json"
	"math/big"
	"testing"

	ledger "github.com/formancehq/ledger/internal"
	"github.com/formancehq/ledger/internal/api/backend"
	"github.com/formancehq/ledger/internal/engine/command"
	"github.com/formancehq/stack/libs/go-libs/metadata"
)

type countingLedger struct {
	backend.Ledger
	created int
}

func (l *countingLedger) CreateTransaction(ctx context.Context, parameters command.Parameters, data ledger.RunScript) (*ledger.Transaction, error) {
	l.created++
	return ledger.NewTransaction().WithID(big.NewInt(int64(l.created - 1))), nil
}
func (l *countingLedger) SaveMeta(ctx context.Context, parameters command.Parameters, targetType string, targetID any, m metadata.Metadata) error {
	return nil
}

func TestWitnessBulkPositions(t *testing.T) {
	create := json.RawMessage(`{"postings":[{"source":"world","destination":"a","amount":1,"asset":"USD"}]}`)
	l := &countingLedger{}
	res, failed, err := ProcessBulk(context.Background(), l, Bulk{
		{Action: "FROBNICATE", Data: json.RawMessage(`{}`)},
		{Action: ActionCreateTransaction, Data: create},
	}, true)
	if err != nil {
		t.Fatal(err)
	}
	if len(res) != 2 || !failed || res[0].ResponseType != "ERROR" {
		t.Errorf("bulk [unknown action, create] with continueOnFailure: %d results %+v, failed=%v; want 2 results, the first an error", len(res), res, failed)
	}
	l = &countingLedger{}
	res, failed, err = ProcessBulk(context.Background(), l, Bulk{
		{Action: ActionCreateTransaction, Data: create},
		{Action: ActionCreateTransaction, Data: json.RawMessage(`{"postings": 12}`)},
		{Action: ActionCreateTransaction, Data: create},
	}, false)
	if l.created != 1 {
		t.Errorf("expected exactly the first element to be executed, %d were", l.created)
	}
	if len(res) != 2 || !failed {
		t.Errorf("bulk [create, malformed, create]: %d results (err=%v, failed=%v); the first element was executed and must be answered at position 0, the malformed one at position 1", len(res), err, failed)
	}
}
