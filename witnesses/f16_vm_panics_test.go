package vm

// Witness for F16 (C12): (a) `save` on an account the program does not otherwise use panics with
// "assignment to entry in nil map"; (b) two balance variables on the same account share one registry
// slot, the first one keeps a nil amount and the script panics. Fails on the pinned snapshot.

import (
	"context"
	"math/big"
	"testing"

	ledger "github.com/formancehq/ledger/internal"
	"github.com/formancehq/ledger/internal/machine/script/compiler"
)

func runScript(t *testing.T, script string, store Store) (err error, panicked any) {
	defer func() { panicked = recover() }()
	p, cerr := compiler.Compile(script)
	if cerr != nil {
		return cerr, nil
	}
	m := NewMachine(*p)
	if err := m.SetVarsFromJSON(map[string]string{}); err != nil {
		return err, nil
	}
	if _, _, err := m.ResolveResources(context.Background(), store); err != nil {
		return err, nil
	}
	if err := m.ResolveBalances(context.Background(), store); err != nil {
		return err, nil
	}
	_, err = Run(m, ledger.RunScript{})
	return err, nil
}

func TestWitnessSaveOnUntrackedAccount(t *testing.T) {
	_, p := runScript(t, "save [USD 1] from @a\n", StaticStore{})
	if p != nil {
		t.Fatalf("script `save [USD 1] from @a` crashed the VM: %v", p)
	}
}

func TestWitnessTwoBalancesOfOneAccount(t *testing.T) {
	store := StaticStore{"a": &AccountWithBalances{Balances: map[string]*big.Int{"USD": big.NewInt(10), "EUR": big.NewInt(5)}}}
	script := `vars {
	monetary $usd = balance(@a, USD)
	monetary $eur = balance(@a, EUR)
}
send $usd (
	source = @a
	destination = @b
)
send $eur (
	source = @a
	destination = @b
)
`
	err, p := runScript(t, script, store)
	if p != nil {
		t.Fatalf("script with two balance() lookups on one account crashed the VM: %v", p)
	}
	if err != nil {
		t.Fatalf("unexpected error: %v", err)
	}
}
