package cmd

// Witness F21 (property C19): `ledger serve --read-only` does not start the server in read-only mode.
// The flag is declared on the serve command's local flag set, but only the root command's persistent flags are
// bound to viper, and serve reads the setting with viper.GetBool: the command-line flag is never seen (only the
// READ_ONLY environment variable is). A server started with --read-only executes every write.
//
// run: scripts/witness.sh /repo cmd witnesses/f21_read_only_flag_test.go -run TestWitnessF21

import (
	"testing"

	"github.com/spf13/cobra"
	"github.com/spf13/viper"
)

func TestWitnessF21ReadOnlyFlagReachesTheServer(t *testing.T) {
	viper.Reset()
	root := NewRootCommand()
	var serve *cobra.Command
	for _, c := range root.Commands() {
		if c.Name() == "serve" {
			serve = c
		}
	}
	if serve == nil {
		t.Fatal("serve command not found")
	}
	// what cobra does before RunE: parse the command line of the sub-command
	if err := serve.ParseFlags([]string{"--read-only", "--auto-upgrade", "--ballast-size", "7"}); err != nil {
		t.Fatal(err)
	}
	if v, _ := serve.Flags().GetBool(readOnlyFlag); !v {
		t.Fatal("the flag itself was not parsed")
	}
	// what RunE reads
	if !viper.GetBool(readOnlyFlag) {
		t.Errorf("serve --read-only: viper.GetBool(%q) is false — api.Config.ReadOnly is false, the router is built without the read-only gate and writes are executed", readOnlyFlag)
	}
	if !viper.GetBool(autoUpgradeFlag) {
		t.Errorf("serve --auto-upgrade is not seen either")
	}
	if viper.GetUint(ballastSizeInBytesFlag) != 7 {
		t.Errorf("serve --ballast-size is not seen either")
	}
}
