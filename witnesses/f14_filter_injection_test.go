package ledgerstore

// Witness for F14 (C20): the address filter of the account / balance / transaction listings is
// formatted into the WHERE clause inside '…' without escaping. Fails on the pinned snapshot
// (the client's text becomes SQL structure), passes after the fix (the filter is rejected).

import (
	"database/sql"
	"strings"
	"testing"

	"github.com/formancehq/stack/libs/go-libs/query"
	"github.com/uptrace/bun"
	"github.com/uptrace/bun/dialect/pgdialect"
)

func TestWitnessAddressFilterIsData(t *testing.T) {
	store := &Store{bucket: &Bucket{db: bun.NewDB(&sql.DB{}, pgdialect.New())}, name: "l"}
	evil := "x' or '1'='1"
	where, _, err := store.accountQueryContext(query.Match("address", evil), NewGetAccountsQuery(NewPaginatedQueryOptions(PITFilterWithVolumes{})))
	if err == nil && strings.Contains(where, "or '1'='1'") {
		t.Errorf("accounts listing: client text became SQL structure: %s", where)
	}
	for _, key := range []string{"account", "source", "destination"} {
		where, _, err = store.transactionQueryContext(query.Match(key, "a:"+evil), NewGetTransactionsQuery(NewPaginatedQueryOptions(PITFilterWithVolumes{})))
		if err == nil && strings.Contains(where, "or '1'='1") {
			t.Errorf("transactions listing (%s): client text became SQL structure: %s", key, where)
		}
	}
	// harmless patterns are still accepted
	for _, ok := range []string{"users:001", "users:", ":001", "users::wallet", "a-b_c:d"} {
		if _, _, err := store.accountQueryContext(query.Match("address", ok), NewGetAccountsQuery(NewPaginatedQueryOptions(PITFilterWithVolumes{}))); err != nil {
			t.Errorf("valid address pattern %q rejected: %v", ok, err)
		}
	}
}
