package ledgerstore

// Witness for F12 (C17): the cursor of a filtered listing cannot be decoded (or loses its filter),
// because PaginatedQueryOptions.QueryBuilder is an interface whose implementations have only
// unexported fields. Fails on the pinned snapshot, passes after the fix.

import (
	"testing"

	"github.com/formancehq/stack/libs/go-libs/bun/bunpaginate"
	"github.com/formancehq/stack/libs/go-libs/query"
)

type recordingCtx struct{ calls []string }

func (r *recordingCtx) BuildMatcher(key, operator string, value any) (string, []any, error) {
	r.calls = append(r.calls, operator+" "+key)
	return key + " ?", []any{value}, nil
}

func TestWitnessFilteredCursorRoundTrips(t *testing.T) {
	qb := query.And(query.Match("address", "users:"), query.Or(query.Lt("balance", 10), query.Not(query.Match("metadata[k]", "v"))))
	q := NewGetAccountsQuery(NewPaginatedQueryOptions(PITFilterWithVolumes{}).WithQueryBuilder(qb).WithPageSize(5))
	token := (*bunpaginate.OffsetPaginatedQuery[PaginatedQueryOptions[PITFilterWithVolumes]])(&q).EncodeAsCursor()
	var back GetAccountsQuery
	if err := bunpaginate.UnmarshalCursor(token, &back); err != nil {
		t.Fatalf("the server cannot decode the cursor it handed out: %v", err)
	}
	if back.Options.QueryBuilder == nil {
		t.Fatalf("the decoded cursor lost the filter")
	}
	want, got := &recordingCtx{}, &recordingCtx{}
	w, _, _ := qb.Build(want)
	g, _, err := back.Options.QueryBuilder.Build(got)
	if err != nil || w != g {
		t.Fatalf("the decoded cursor stands for another query: %q vs %q (%v)", w, g, err)
	}
}
