package ledgerstore

// Witness for F15 (C04): the query behind GET /logs does not filter on the ledger name, so the logs of
// every ledger sharing the bucket are listed. SQL text is rendered without a database connection.
// Fails on the pinned snapshot, passes after the fix.

import (
	"database/sql"
	"strings"
	"testing"

	"github.com/uptrace/bun"
	"github.com/uptrace/bun/dialect/pgdialect"
)

func TestWitnessLogsQueryIsLedgerScoped(t *testing.T) {
	store := &Store{bucket: &Bucket{db: bun.NewDB(&sql.DB{}, pgdialect.New())}, name: "ledger-a"}
	q := store.bucket.db.NewSelect()
	q = store.logsQueryBuilder(NewPaginatedQueryOptions[any](nil))(q)
	text := q.String()
	if !strings.Contains(text, "ledger-a") {
		t.Fatalf("the logs listing of ledger-a is not restricted to that ledger: %s", text)
	}
}
