package command

// Witness for F1 (C02) and F5 (C11): run with
//   go test -overlay <json mapping internal/engine/command/zz_witness_test.go to this file> -run TestWitness ./internal/engine/command/
// Fails on the pinned snapshot (1726809), passes after the fix.

import (
	"context"
	"math/big"
	"sync"
	"testing"
	"time"

	ledger "github.com/formancehq/ledger/internal"
	"github.com/formancehq/ledger/internal/bus"
	"github.com/formancehq/ledger/internal/storage"
	"github.com/formancehq/stack/libs/go-libs/logging"
	"github.com/formancehq/stack/libs/go-libs/metadata"
)

type slowStore struct {
	*storage.InMemoryStore
	mu sync.Mutex
}

func (s *slowStore) InsertLogs(ctx context.Context, logs ...*ledger.ChainedLog) error {
	time.Sleep(200 * time.Millisecond) // persistence latency
	s.mu.Lock()
	defer s.mu.Unlock()
	return s.InMemoryStore.InsertLogs(ctx, logs...)
}

func TestWitnessDoubleSpend(t *testing.T) {
	store := &slowStore{InMemoryStore: storage.NewInMemoryStore()}
	ctx := logging.TestingContext()
	fund := ledger.NewTransactionLog(ledger.NewTransaction().WithPostings(
		ledger.NewPosting("world", "alice", "USD", big.NewInt(100))), map[string]metadata.Metadata{}).ChainLog(nil)
	if err := store.InMemoryStore.InsertLogs(ctx, fund); err != nil {
		t.Fatal(err)
	}
	commander := New(store, NewDefaultLocker(), NewCompiler(1024), NewReferencer(), bus.NewNoOpMonitor())
	if err := commander.Init(ctx); err != nil {
		t.Fatal(err)
	}
	go commander.Run(ctx)
	defer commander.Close()

	var wg sync.WaitGroup
	errs := make([]error, 2)
	for i := 0; i < 2; i++ {
		wg.Add(1)
		go func(i int) {
			defer wg.Done()
			time.Sleep(time.Duration(i) * 50 * time.Millisecond) // second request starts while the first is being persisted
			_, errs[i] = commander.CreateTransaction(ctx, Parameters{}, ledger.RunScript{Script: ledger.Script{
				Plain: "send [USD 100] (\n source = @alice\n destination = @bob\n)"}})
		}(i)
	}
	wg.Wait()
	accepted := 0
	for _, e := range errs {
		if e == nil {
			accepted++
		}
	}
	if accepted != 1 {
		t.Fatalf("alice holds 100 USD; %d transactions spending 100 each were accepted (errors: %v)", accepted, errs)
	}
}

func TestWitnessDuplicateReference(t *testing.T) {
	store := &slowStore{InMemoryStore: storage.NewInMemoryStore()}
	ctx := logging.TestingContext()
	commander := New(store, NewDefaultLocker(), NewCompiler(1024), NewReferencer(), bus.NewNoOpMonitor())
	go commander.Run(ctx)
	defer commander.Close()
	var wg sync.WaitGroup
	errs := make([]error, 2)
	for i := 0; i < 2; i++ {
		wg.Add(1)
		go func(i int) {
			defer wg.Done()
			time.Sleep(time.Duration(i) * 50 * time.Millisecond)
			_, errs[i] = commander.CreateTransaction(ctx, Parameters{}, ledger.RunScript{Reference: "ref-1", Script: ledger.Script{
				Plain: "send [USD 1] (\n source = @world\n destination = @bob\n)"}})
		}(i)
	}
	wg.Wait()
	accepted := 0
	for _, e := range errs {
		if e == nil {
			accepted++
		}
	}
	if accepted != 1 {
		t.Fatalf("%d transactions with reference ref-1 were committed (errors: %v)", accepted, errs)
	}
}
