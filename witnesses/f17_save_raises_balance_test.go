package vm

// Witness for F17 (C01): `save [ASSET *] from @a` sets the tracked balance of @a to zero even when it is
// negative, i.e. it RAISES what later sends may take; and `save [ASSET -n] from @a` adds n to it.
// An accepted script then takes from @a more than its running balance plus granted overdraft.

import (
	"context"
	"math/big"
	"testing"

	ledger "github.com/formancehq/ledger/internal"
	"github.com/formancehq/ledger/internal/machine"
	"github.com/formancehq/ledger/internal/machine/script/compiler"
)

func runForPostings(t *testing.T, script string, vars map[string]string, store Store) (res *Result, err error, panicked any) {
	defer func() { panicked = recover() }()
	p, cerr := compiler.Compile(script)
	if cerr != nil {
		return nil, cerr, nil
	}
	m := NewMachine(*p)
	if err := m.SetVarsFromJSON(vars); err != nil {
		return nil, err, nil
	}
	if _, _, err := m.ResolveResources(context.Background(), store); err != nil {
		return nil, err, nil
	}
	if err := m.ResolveBalances(context.Background(), store); err != nil {
		return nil, err, nil
	}
	res, err = Run(m, ledger.RunScript{})
	return res, err, nil
}

// replays postings over the starting balances; no non-world account may end a posting below zero
// (no overdraft is granted in these scripts)
func assertNoOverdraw(t *testing.T, start map[string]int64, res *Result) {
	bal := map[string]*big.Int{}
	for k, v := range start {
		bal[k] = big.NewInt(v)
	}
	for i, p := range res.Postings {
		if bal[p.Source] == nil {
			bal[p.Source] = big.NewInt(0)
		}
		if bal[p.Destination] == nil {
			bal[p.Destination] = big.NewInt(0)
		}
		bal[p.Source].Sub(bal[p.Source], p.Amount)
		bal[p.Destination].Add(bal[p.Destination], p.Amount)
		if p.Source != "world" && bal[p.Source].Sign() < 0 && p.Amount.Sign() > 0 {
			t.Fatalf("posting %d takes %v from %s and leaves it at %v with no overdraft granted", i, p.Amount, p.Source, bal[p.Source])
		}
	}
}

func TestWitnessSaveAllOnNegativeBalance(t *testing.T) {
	store := StaticStore{"alice": &AccountWithBalances{Balances: map[string]*big.Int{"COIN": big.NewInt(-10)}}}
	script := `save [COIN *] from @alice
send [COIN 10] (
	source = @world
	destination = @alice
)
send [COIN 10] (
	source = @alice
	destination = @bob
)
`
	res, err, p := runForPostings(t, script, map[string]string{}, store)
	if p != nil {
		t.Fatalf("panic: %v", p)
	}
	if err != nil {
		if !machine.IsInsufficientFundError(err) {
			t.Logf("rejected with: %v", err)
		}
		return // rejected: fine
	}
	assertNoOverdraw(t, map[string]int64{"alice": -10}, res)
}

func TestWitnessSaveNegativeAmount(t *testing.T) {
	store := StaticStore{"alice": &AccountWithBalances{Balances: map[string]*big.Int{"COIN": big.NewInt(0)}}}
	script := `vars {
	monetary $m
}
save $m from @alice
send [COIN 10] (
	source = @alice
	destination = @bob
)
`
	res, err, p := runForPostings(t, script, map[string]string{"m": "COIN -10"}, store)
	if p != nil {
		t.Fatalf("panic: %v", p)
	}
	if err != nil {
		t.Logf("rejected with: %v", err)
		return
	}
	assertNoOverdraw(t, map[string]int64{"alice": 0}, res)
}

func TestWitnessSaveNegativeExpression(t *testing.T) {
	store := StaticStore{"alice": &AccountWithBalances{Balances: map[string]*big.Int{"COIN": big.NewInt(0)}}}
	script := `save [COIN 5] - [COIN 15] from @alice
send [COIN 10] (
	source = @alice
	destination = @bob
)
`
	res, err, p := runForPostings(t, script, map[string]string{}, store)
	if p != nil {
		t.Fatalf("panic: %v", p)
	}
	if err != nil {
		t.Logf("rejected with: %v", err)
		return
	}
	assertNoOverdraw(t, map[string]int64{"alice": 0}, res)
}
