package command

// Witness for F11 (C15): a cancellation that coincides with a grant returns an error while the
// accounts stay locked forever. Fails on the pinned snapshot, passes after the fix.

import (
	"context"
	"runtime"
	"testing"
	"time"

	"github.com/formancehq/stack/libs/go-libs/logging"
)

func TestWitnessCancelRacingGrant(t *testing.T) {
	defer runtime.GOMAXPROCS(runtime.GOMAXPROCS(1))
	for round := 0; round < 200; round++ {
		locker := NewDefaultLocker()
		base := logging.TestingContext()
		unlockA, err := locker.Lock(base, Accounts{Write: []string{"acc"}})
		if err != nil {
			t.Fatal(err)
		}
		ctxB, cancel := context.WithCancel(base)
		resB := make(chan error, 1)
		go func() {
			unlockB, err := locker.Lock(ctxB, Accounts{Write: []string{"acc"}})
			if err == nil {
				unlockB(base)
			}
			resB <- err
		}()
		// let B queue up
		for i := 0; i < 10; i++ {
			runtime.Gosched()
		}
		// make both select arms of B ready before B runs again (single P)
		cancel()
		unlockA(base)
		errB := <-resB
		// whatever B got, the account must be free now
		ctxC, cancelC := context.WithTimeout(base, 200*time.Millisecond)
		unlockC, err := locker.Lock(ctxC, Accounts{Write: []string{"acc"}})
		cancelC()
		if err != nil {
			t.Fatalf("round %d: B returned %v, yet account 'acc' is still locked afterwards: %v", round, errB, err)
		}
		unlockC(base)
	}
}
