package vm

// Witness for F18 (C08): `save <monetary expression> from @a` with an arithmetic expression was compiled
// as `save <left operand> from @a`: VisitSaveFromAccount pushed the address VisitExpr returns for push=false,
// which for `a + b` / `a - b` is the address of `a` only. The program then does not do what the source says.

import (
	"context"
	"math/big"
	"testing"

	ledger "github.com/formancehq/ledger/internal"
	"github.com/formancehq/ledger/internal/machine/script/compiler"
)

func TestWitnessSaveArithmetic(t *testing.T) {
	store := StaticStore{"alice": &AccountWithBalances{Balances: map[string]*big.Int{"COIN": big.NewInt(100)}}}
	script := `save [COIN 10] + [COIN 20] from @alice
send [COIN *] (
	source = @alice
	destination = @bob
)
`
	p, err := compiler.Compile(script)
	if err != nil {
		t.Fatal(err)
	}
	m := NewMachine(*p)
	if err := m.SetVarsFromJSON(map[string]string{}); err != nil {
		t.Fatal(err)
	}
	if _, _, err := m.ResolveResources(context.Background(), store); err != nil {
		t.Fatal(err)
	}
	if err := m.ResolveBalances(context.Background(), store); err != nil {
		t.Fatal(err)
	}
	res, err := Run(m, ledger.RunScript{})
	if err != nil {
		t.Fatal(err)
	}
	if len(res.Postings) != 1 || res.Postings[0].Amount.Cmp(big.NewInt(70)) != 0 {
		t.Fatalf("save [COIN 10] + [COIN 20] must protect 30 of alice's 100 COIN, so 70 are sent; got %v", res.Postings)
	}
}
