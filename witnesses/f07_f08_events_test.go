package command

// Witness for F7 (C14/C16: a dry run publishes events) and F8 (C16: the revert event swaps the two
// transactions). Fails on the pinned snapshot, passes after the fixes.

import (
	"context"
	"math/big"
	"testing"

	ledger "github.com/formancehq/ledger/internal"
	"github.com/formancehq/ledger/internal/storage"
	"github.com/formancehq/stack/libs/go-libs/logging"
	"github.com/formancehq/stack/libs/go-libs/metadata"
)

type recordingMonitor struct {
	events           []string
	reverted, revert *ledger.Transaction
}

func (m *recordingMonitor) CommittedTransactions(ctx context.Context, res ledger.Transaction, am map[string]metadata.Metadata) {
	m.events = append(m.events, "committed")
}
func (m *recordingMonitor) SavedMetadata(ctx context.Context, targetType, id string, md metadata.Metadata) {
	m.events = append(m.events, "saved")
}
func (m *recordingMonitor) RevertedTransaction(ctx context.Context, reverted, revert *ledger.Transaction) {
	m.events = append(m.events, "reverted")
	m.reverted, m.revert = reverted, revert
}
func (m *recordingMonitor) DeletedMetadata(ctx context.Context, targetType string, targetID any, key string) {
	m.events = append(m.events, "deleted")
}

func TestWitnessDryRunPublishesNothing(t *testing.T) {
	store := storage.NewInMemoryStore()
	ctx := logging.TestingContext()
	mon := &recordingMonitor{}
	commander := New(store, NoOpLocker, NewCompiler(1024), NewReferencer(), mon)
	go commander.Run(ctx)
	defer commander.Close()
	script := ledger.RunScript{Script: ledger.Script{Plain: "send [USD 1] (\n source = @world\n destination = @a\n)"}}
	if _, err := commander.CreateTransaction(ctx, Parameters{}, script); err != nil {
		t.Fatal(err)
	}
	mon.events = nil
	dry := Parameters{DryRun: true}
	if _, err := commander.CreateTransaction(ctx, dry, script); err != nil {
		t.Fatal(err)
	}
	if err := commander.SaveMeta(ctx, dry, "ACCOUNT", "a", metadata.Metadata{"k": "v"}); err != nil {
		t.Fatal(err)
	}
	if err := commander.DeleteMetadata(ctx, dry, "ACCOUNT", "a", "k"); err != nil {
		t.Fatal(err)
	}
	if _, err := commander.RevertTransaction(ctx, dry, big.NewInt(0), true); err != nil {
		t.Fatal(err)
	}
	if len(mon.events) != 0 {
		t.Fatalf("dry-run requests published events: %v", mon.events)
	}
}

func TestWitnessRevertEventRoles(t *testing.T) {
	store := storage.NewInMemoryStore()
	ctx := logging.TestingContext()
	mon := &recordingMonitor{}
	commander := New(store, NoOpLocker, NewCompiler(1024), NewReferencer(), mon)
	go commander.Run(ctx)
	defer commander.Close()
	script := ledger.RunScript{Script: ledger.Script{Plain: "send [USD 1] (\n source = @world\n destination = @a\n)"}}
	for i := 0; i < 2; i++ {
		if _, err := commander.CreateTransaction(ctx, Parameters{}, script); err != nil {
			t.Fatal(err)
		}
	}
	newTx, err := commander.RevertTransaction(ctx, Parameters{}, big.NewInt(1), true)
	if err != nil {
		t.Fatal(err)
	}
	if mon.reverted == nil || mon.reverted.ID.Int64() != 1 || mon.revert.ID.Cmp(newTx.ID) != 0 {
		t.Fatalf("transaction 1 was reverted by transaction %s; the event says reverted=%s revert=%s", newTx.ID, mon.reverted.ID, mon.revert.ID)
	}
}
