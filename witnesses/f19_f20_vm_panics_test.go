package vm

// Witness for F19 / F20 (C12): two inputs that crash the engine instead of producing an error.
// F19: a source allotment whose portions do not add up (`{ 50% from @a 60% from @b }`): the compiler ignores the
//      error VisitAllotment returns for source allotments and emits a program that panics the VM.
// F20: a `number` variable supplied as JSON `null` becomes a nil *MonetaryInt and the VM dereferences it.

import (
	"context"
	"math/big"
	"testing"

	ledger "github.com/formancehq/ledger/internal"
	"github.com/formancehq/ledger/internal/machine/script/compiler"
)

func runScriptForResult(t *testing.T, script string, vars map[string]string, store Store) (res *Result, err error, panicked any) {
	defer func() { panicked = recover() }()
	p, cerr := compiler.Compile(script)
	if cerr != nil {
		return nil, cerr, nil
	}
	m := NewMachine(*p)
	if err := m.SetVarsFromJSON(vars); err != nil {
		return nil, err, nil
	}
	if _, _, err := m.ResolveResources(context.Background(), store); err != nil {
		return nil, err, nil
	}
	if err := m.ResolveBalances(context.Background(), store); err != nil {
		return nil, err, nil
	}
	res, err = Run(m, ledger.RunScript{})
	return res, err, nil
}



func TestWitnessSourceAllotmentOverHundredPercent(t *testing.T) {
	store := StaticStore{
		"a": &AccountWithBalances{Balances: map[string]*big.Int{"COIN": big.NewInt(100)}},
		"b": &AccountWithBalances{Balances: map[string]*big.Int{"COIN": big.NewInt(100)}},
	}
	script := `send [COIN 10] (
	source = {
		50% from @a
		60% from @b
	}
	destination = @c
)
`
	_, err, p := runScriptForResult(t, script, map[string]string{}, store)
	if p != nil {
		t.Fatalf("the engine crashed instead of reporting an error: %v", p)
	}
	if err == nil {
		t.Fatalf("portions adding up to 110%% were accepted")
	}
}

func TestWitnessNullNumberVariable(t *testing.T) {
	store := StaticStore{"a": &AccountWithBalances{Balances: map[string]*big.Int{"COIN": big.NewInt(100)}}}
	script := `vars {
	number $n
}
send [COIN 10] (
	source = @a
	destination = @b
)
set_tx_meta("n", $n + 1)
`
	_, err, p := runScriptForResult(t, script, map[string]string{"n": "null"}, store)
	if p != nil {
		t.Fatalf("the engine crashed instead of reporting an error: %v", p)
	}
	_ = err
}
