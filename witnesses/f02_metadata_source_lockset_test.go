package vm

// Witness for F2 (C02): a source account designated through an account-typed metadata lookup is not
// part of the involved accounts, so the write-lock set contains "" instead of it.
// Fails on the pinned snapshot, passes after the fix.

import (
	"context"
	"testing"

	ledger "github.com/formancehq/ledger/internal"
	"github.com/formancehq/ledger/internal/machine/script/compiler"
	"github.com/formancehq/stack/libs/go-libs/metadata"
)

func TestWitnessMetadataSourceIsLocked(t *testing.T) {
	p, err := compiler.Compile(`
vars {
	account $src = meta(@cfg, "src")
}
send [USD 10] (
	source = $src
	destination = @bob
)`)
	if err != nil {
		t.Fatal(err)
	}
	m := NewMachine(*p)
	if err := m.SetVarsFromJSON(map[string]string{}); err != nil {
		t.Fatal(err)
	}
	store := StaticStore{
		"cfg": &AccountWithBalances{Account: ledger.Account{Address: "cfg", Metadata: metadata.Metadata{"src": "alice"}}},
	}
	involved, sources, err := m.ResolveResources(context.Background(), store)
	if err != nil {
		t.Fatal(err)
	}
	found := false
	for _, s := range sources {
		if s == "alice" {
			found = true
		}
	}
	if !found {
		t.Fatalf("the script debits alice; write-lock set = %q, involved accounts = %q", sources, involved)
	}
}
