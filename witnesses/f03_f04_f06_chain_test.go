package command

// Witness for F3/F4 (C05) and F6 (C14/C05): chain order vs hand-off order, transaction ids in log
// order, dry run consuming a transaction id. Fails on the pinned snapshot, passes after the fix.

import (
	"context"
	"fmt"
	"math/big"
	"sync"
	"testing"

	ledger "github.com/formancehq/ledger/internal"
	"github.com/formancehq/ledger/internal/bus"
	"github.com/formancehq/ledger/internal/storage"
	"github.com/formancehq/stack/libs/go-libs/logging"
)

type recordingStore struct {
	*storage.InMemoryStore
	mu       sync.Mutex
	inserted []*ledger.ChainedLog
}

func (s *recordingStore) InsertLogs(ctx context.Context, logs ...*ledger.ChainedLog) error {
	s.mu.Lock()
	defer s.mu.Unlock()
	s.inserted = append(s.inserted, logs...)
	return s.InMemoryStore.InsertLogs(ctx, logs...)
}

func TestWitnessChainOrder(t *testing.T) {
	for round := 0; round < 30; round++ {
		store := &recordingStore{InMemoryStore: storage.NewInMemoryStore()}
		ctx := logging.TestingContext()
		commander := New(store, NoOpLocker, NewCompiler(1024), NewReferencer(), bus.NewNoOpMonitor())
		go commander.Run(ctx)
		var wg sync.WaitGroup
		for i := 0; i < 64; i++ {
			wg.Add(1)
			go func(i int) {
				defer wg.Done()
				_, err := commander.CreateTransaction(ctx, Parameters{}, ledger.RunScript{Script: ledger.Script{
					Plain: fmt.Sprintf("send [USD 1] (\n source = @world\n destination = @acc%d\n)", i)}})
				if err != nil {
					t.Error(err)
				}
			}(i)
		}
		wg.Wait()
		commander.Close()
		var prevTx *big.Int
		for i, l := range store.inserted {
			if l.ID.Cmp(big.NewInt(int64(i))) != 0 {
				t.Fatalf("round %d: log at position %d of the persisted sequence carries id %s (chain order != hand-off order)", round, i, l.ID)
			}
			tx := l.Data.(ledger.NewTransactionLogPayload).Transaction
			if prevTx != nil && tx.ID.Cmp(new(big.Int).Add(prevTx, big.NewInt(1))) != 0 {
				t.Fatalf("round %d: log %d carries transaction id %s after %s (ids do not increase by one in log order)", round, i, tx.ID, prevTx)
			}
			prevTx = tx.ID
		}
	}
}

func TestWitnessDryRunConsumesID(t *testing.T) {
	store := &recordingStore{InMemoryStore: storage.NewInMemoryStore()}
	ctx := logging.TestingContext()
	commander := New(store, NoOpLocker, NewCompiler(1024), NewReferencer(), bus.NewNoOpMonitor())
	go commander.Run(ctx)
	defer commander.Close()
	script := ledger.RunScript{Script: ledger.Script{Plain: "send [USD 1] (\n source = @world\n destination = @a\n)"}}
	preview, err := commander.CreateTransaction(ctx, Parameters{DryRun: true}, script)
	if err != nil {
		t.Fatal(err)
	}
	real, err := commander.CreateTransaction(ctx, Parameters{}, script)
	if err != nil {
		t.Fatal(err)
	}
	if preview.ID.Cmp(real.ID) != 0 {
		t.Fatalf("preview announced transaction id %s, the real write right after it got %s: the dry run consumed an id", preview.ID, real.ID)
	}
	if real.ID.Sign() != 0 {
		t.Fatalf("first committed transaction has id %s, want 0", real.ID)
	}
}
