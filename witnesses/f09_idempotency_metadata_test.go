package command

// Witness for F9 (C07): set/delete metadata ignore the idempotency key. Fails on the pinned
// snapshot, passes after the fix.

import (
	"testing"

	"github.com/formancehq/ledger/internal/bus"
	"github.com/formancehq/ledger/internal/storage"
	"github.com/formancehq/stack/libs/go-libs/logging"
	"github.com/formancehq/stack/libs/go-libs/metadata"
)

func TestWitnessMetadataIdempotency(t *testing.T) {
	store := storage.NewInMemoryStore()
	ctx := logging.TestingContext()
	commander := New(store, NoOpLocker, NewCompiler(1024), NewReferencer(), bus.NewNoOpMonitor())
	go commander.Run(ctx)
	defer commander.Close()
	for i := 0; i < 2; i++ {
		if err := commander.SaveMeta(ctx, Parameters{IdempotencyKey: "k1"}, "ACCOUNT", "alice", metadata.Metadata{"a": "b"}); err != nil {
			t.Fatal(err)
		}
	}
	for i := 0; i < 2; i++ {
		if err := commander.DeleteMetadata(ctx, Parameters{IdempotencyKey: "k2"}, "ACCOUNT", "alice", "a"); err != nil {
			t.Fatal(err)
		}
	}
	last, err := store.GetLastLog(ctx)
	if err != nil {
		t.Fatal(err)
	}
	if n := last.ID.Int64() + 1; n != 2 {
		t.Fatalf("2 distinct idempotency keys used (each twice), %d logs persisted; last log has ik=%q", n, last.IdempotencyKey)
	}
}
